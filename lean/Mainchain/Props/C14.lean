import Mainchain.Lemmas.EntTotal
import Mainchain.Lemmas.Witness
/-
C14 — No history can halt the chain; failed transactions change nothing.

The model's block hooks are those of the four custom modules: the enterprise BeginBlocker (statement
order regenerated from x/enterprise/abci.go) and the governance-executed messages of EndBlock; `commit`
is a pure function of the working state.  SDK-module hooks (staking, distribution, gov tallying …) are
outside the model and are exercised by the harness with `recover()` around every ABCI call.
-/
namespace Mainchain
namespace C14
open AL Bank

theorem ordersOK_reachable (g : GenCfg) (s : State) (h : FineReach g (BooksQ g.ent.denom) s) : OrdersOK g.ent.denom s := by
  have hbook : ∀ s, FineReach g (BooksQ g.ent.denom) s → BookInv s.ent := fun s hs =>
    bookInv_reachable g s (FineReach.weaken (fun _ hq => hq.2.1) hs)
  induction h with
  | init => intro id po hf; simp [initState] at hf
  | step s s' hr hq hs ih => exact ordersOK_step _ s s' hq.2.2 (hbook s hr) ih hs

/-- **BeginBlock never panics.**  In every state of every run (any history of transactions, nested
messages and governance) whose queued orders leave room below 2^255 in the bank's 256-bit integers,
the enterprise BeginBlocker — completion of every accepted order, then the tally of every raised
order — completes without a panic at any block time: every explicit `panic(...)` of blocker.go (order
missing, wrong status, undecodable purchaser, mint/lock failure) and every panicking primitive
reachable from it (Coin.Add on different denominations, Int overflow, NewCoins on an invalid coin) is
dead code under the invariants.  The history assumptions are exactly the two known findings:
governance has not changed the enterprise denomination (`BooksQ`) and amounts stay below 2^255. -/
theorem c14_begin_block_never_panics (g : GenCfg) (hg : GenBooksValid g) (hD : validDenom g.ent.denom = true) (s : State)
    (h : FineReach g (BooksQ g.ent.denom) s) (hq : s.ent.params.denom = g.ent.denom)
    (hroom : BlockRoom g.ent.denom s s.ent.acceptedQ) (t : Int) :
    ∃ s', beginBlock Facts.beginBlockSteps { s with time := t } = .ok s' := by
  have ha := entAll_reachable g hg s h
  have horder : Facts.beginBlockSteps = ["ProcessAcceptedPurchaseOrders", "TallyPurchaseOrderDecisions"] := by decide
  rw [horder]
  exact beginBlock_total g.ent.denom hD s t ⟨ha.str, ha.book, ha.books, ordersOK_reachable g s h, hq⟩ hroom

/-- the tally alone never panics, whatever the parameters are (no assumption beyond the order-id counter) -/
theorem c14_tally_never_panics (g : GenCfg) (s : State) (h : FineReach g EntQ s) (now : Nat) :
    ∃ e, s.ent.tally now = .ok e :=
  tally_total s.ent now (bookInv_reachable g s h)

/-- EndBlock (governance-executed messages: each all-or-nothing) and Commit are total functions of the model -/
theorem c14_end_block_and_commit_total (n : Node) (wall : Nat) (govs : List (List Msg)) :
    ∃ n' rs, n.endBlock wall govs = (n', rs) ∧ ∃ n'', n'.commit = n'' := ⟨_, _, rfl, _, rfl⟩

/-- what the ante chain alone may change: fee balances and the locked/spent books (the fee unlock).
Orders, queues, whitelist, registrations, records, limits, streams, all parameters, grants and
allowances are those of the state before. -/
def AnteOnly (s s1 : State) : Prop :=
  s1.wrk = s.wrk ∧ s1.bcn = s.bcn ∧ s1.str = s.str ∧ s1.ent.book = s.ent.book ∧ s1.grants = s.grants ∧
  s1.allowances = s.allowances ∧ s1.time = s.time

theorem anteOnly_refl (s : State) : AnteOnly s s := ⟨rfl, rfl, rfl, rfl, rfl, rfl, rfl⟩

theorem anteOnly_trans (a b c : State) (h1 : AnteOnly a b) (h2 : AnteOnly b c) : AnteOnly a c :=
  ⟨h2.1.trans h1.1, h2.2.1.trans h1.2.1, h2.2.2.1.trans h1.2.2.1, h2.2.2.2.1.trans h1.2.2.2.1,
   h2.2.2.2.2.1.trans h1.2.2.2.2.1, h2.2.2.2.2.2.1.trans h1.2.2.2.2.2.1, h2.2.2.2.2.2.2.trans h1.2.2.2.2.2.2⟩

theorem ante_anteOnly (order : List String) (mode : Mode) (s s1 : State) (tx : Tx) (h : ante order mode s tx = .ok s1) :
    AnteOnly s s1 :=
  ante_rel AnteOnly anteOnly_refl anteOnly_trans tx (by
    intro a b he
    cases he with
    | none hs => subst hs; exact anteOnly_refl _
    | unlock payer x _ _ _ hx hs => subst hs; exact ⟨rfl, rfl, rfl, unlockForFees_book _ _ _ _ _ hx, rfl, rfl, rfl⟩
    | deduct _ _ _ _ _ _ hs => subst hs; exact ⟨rfl, rfl, rfl, rfl, rfl, rfl, rfl⟩) order mode s s1 h

/-- **Failed transactions change nothing; multi-message transactions are all-or-nothing.**  For every
transaction the state after `DeliverTx` is one of exactly three:
(1) the state before, untouched — when stateless validation or any ante decorator fails (error or panic);
(2) the ante state — when the ante chain passed but some message (the k-th, for any k) failed by error
    or by panic: NONE of the messages' effects is kept, and the ante state differs from the state before
    only by the pre-execution effects (`AnteOnly`);
(3) the state after ALL messages — only when the outcome is ok. -/
theorem c14_failed_tx_changes_nothing_and_multimsg_atomic (wall : Nat) (s : State) (tx : Tx) :
    ((deliverTx Facts.anteOrder wall s tx).2.outcome ≠ .ok →
      (deliverTx Facts.anteOrder wall s tx).1 = s ∨
      (∃ s1, ante Facts.anteOrder .deliver s tx = .ok s1 ∧ (deliverTx Facts.anteOrder wall s tx).1 = s1 ∧ AnteOnly s s1 ∧
        ∃ e, runMsgs wall s1 tx.msgs = .error e)) ∧
    ((deliverTx Facts.anteOrder wall s tx).2.outcome = .ok →
      ∃ s1 rs, ante Facts.anteOrder .deliver s tx = .ok s1 ∧
        runMsgs wall s1 tx.msgs = .ok ((deliverTx Facts.anteOrder wall s tx).1, rs)) := by
  unfold deliverTx
  split
  · exact ⟨fun _ => Or.inl rfl, fun h => by simp at h⟩
  · split
    · rename_i e _; exact ⟨fun _ => Or.inl rfl, fun h => by cases e <;> simp [Outcome.ofErr] at h⟩
    · split
      · rename_i e _; exact ⟨fun _ => Or.inl rfl, fun h => by cases e <;> simp [Outcome.ofErr] at h⟩
      · rename_i s1 h1
        split
        · rename_i e he
          exact ⟨fun _ => Or.inr ⟨s1, h1, rfl, ante_anteOnly _ _ _ _ _ h1, e, he⟩, fun h => by cases e <;> simp [Outcome.ofErr] at h⟩
        · rename_i s2 rs h2
          exact ⟨fun h => absurd rfl h, fun _ => ⟨s1, rs, h1, h2⟩⟩

/-- the messages of a transaction run on top of one another and fail as a whole: if the k-th message
fails, `runMsgs` fails (there is no partial result to keep) -/
theorem c14_runMsgs_fails_if_any_message_fails (wall : Nat) (s : State) (pre : List Msg) (m : Msg) (post : List Msg)
    (s1 : State) (rs : List Resp) (hpre : runMsgs wall s pre = .ok (s1, rs)) (e : Err) (hm : handle wall s1 m = .error e) :
    runMsgs wall s (pre ++ m :: post) = .error e := by
  unfold runMsgs at hpre ⊢
  rw [List.foldlM_append, hpre]
  simp only [bind, Except.bind, List.foldlM_cons, hm]

/-- **A proposal's message batch applies as a whole or not at all**, and that is true of every proposal executed in an
EndBlock, one after another: the state after the proposals `govs` is the state reached by folding, in order, over the ones
that PASSED only — a proposal that failed (wrong signer, or any message failing after earlier ones succeeded) contributes
nothing, whatever its earlier messages had written. -/
theorem c14_failed_proposals_leave_no_trace (wall : Nat) (govs : List (List Msg)) :
    ∀ (s : State) (flags : List Bool),
      (govs.foldl (fun (acc : State × List Bool) ms =>
        let (s', ok) := govExecAll wall acc.1 ms
        (s', acc.2 ++ [ok])) (s, flags)).1 =
      (govs.foldl (fun (st : State) ms =>
        if (govExecAll wall st ms).2 = true then (govExecAll wall st ms).1 else st) s) := by
  induction govs with
  | nil => intro s flags; rfl
  | cons ms rest ih =>
    intro s flags
    simp only [List.foldl_cons]
    have hstep : (govExecAll wall s ms).1 = if (govExecAll wall s ms).2 = true then (govExecAll wall s ms).1 else s := by
      by_cases hok : (govExecAll wall s ms).2 = true
      · simp [hok]
      · have hf : (govExecAll wall s ms).2 = false := by simpa using hok
        have : (govExecAll wall s ms).1 = s := by
          revert hf
          unfold govExecAll
          split
          · split
            · intro h; cases h
            · intro _; rfl
          · intro _; rfl
        simp [hf, this]
    rw [← hstep]
    exact ih _ _

/-- the same for the node the driver runs: the working state after `EndBlock` is the fold over the passed proposals, and
when every proposal of the block failed it is the working state before (what the `failed-batch-changes-nothing` oracle
demands of the real application). -/
theorem c14_end_block_of_failed_proposals_is_identity (n : Node) (wall : Nat) (govs : List (List Msg)) :
    (n.endBlock wall govs).1.working =
      (govs.foldl (fun (st : State) ms =>
        if (govExecAll wall st ms).2 = true then (govExecAll wall st ms).1 else st) n.working) ∧
    ((∀ ms ∈ govs, ∀ st, (govExecAll wall st ms).2 = false) → (n.endBlock wall govs).1.working = n.working) := by
  have h1 : (n.endBlock wall govs).1.working =
      (govs.foldl (fun (st : State) ms =>
        if (govExecAll wall st ms).2 = true then (govExecAll wall st ms).1 else st) n.working) := by
    have := c14_failed_proposals_leave_no_trace wall govs n.working []
    simpa [Node.endBlock] using this
  refine ⟨h1, ?_⟩
  intro hall
  rw [h1]
  clear h1
  generalize n.working = w
  induction govs generalizing w with
  | nil => rfl
  | cons ms rest ih =>
    simp only [List.foldl_cons]
    rw [hall ms (by simp) w]
    simp only [Bool.false_eq_true, if_false]
    exact ih (fun ms' hm st => hall ms' (by simp [hm]) st) w

-- non-vacuity of the premise above: a proposal that fails in every state (its message is not signed by the gov account)
example : ∀ st, (govExecAll 0 st [Msg.strParams (AddrTok.ok 5 false) 0]).2 = false := by
  intro st
  have : ([Msg.strParams (AddrTok.ok 5 false) 0].all (fun m => decide (m.signer = some Mgov))) = false := by decide
  simp [govExecAll, this]

-- non-vacuity: a concrete state with an accepted order satisfies the room hypothesis
example : (2 : Int) ^ 255 = 57896044618658097711785492504343953926634992332820282019728792003956564819968 := by decide

/-- **known finding halt/B-denom-change, negation witness.**  With an accepted order waiting for completion,
a governance change of the enterprise denomination makes the next `BeginBlock` panic (`Coin.Add` on `atoken`
and `nund`) — and every later one, since the order stays queued; without the change the same block completes
the order.  `c14_begin_block_never_panics` excludes such histories by `BooksQ`. -/
def hAccepted : State := dBegin dDecided 1700000010

def hChanged : State :=
  (govExec 0 hAccepted (.entParams (.ok Mgov false) { dGen.ent with denom := "atoken" })).1

theorem c14_denom_change_halts :
    hAccepted.ent.acceptedQ = [1] ∧ hChanged.ent.params.denom = "atoken" ∧
    (beginBlock Facts.beginBlockSteps { hAccepted with time := 1700000015 * nsPerSec }).isOk = true ∧
    (beginBlock Facts.beginBlockSteps { hChanged with time := 1700000015 * nsPerSec }).isOk = false ∧
    (beginBlock Facts.beginBlockSteps { hChanged with time := 1700000020 * nsPerSec }).isOk = false := by
  decide +kernel

/-- **known finding halt/B-int-overflow, negation witness.**  Two accepted orders of 2^255 nund: completing the
second overflows the bank's 256-bit supply integer and `BeginBlock` panics.  `BlockRoom` excludes it. -/
def oDecided : State :=
  [dTx 3 (.entRaise (.ok 3 false) (2 ^ 255) "nund"), dTx 3 (.entRaise (.ok 3 false) (2 ^ 255) "nund"),
   dTx 0 (.entDecide 1 2 (.ok 0 false)), dTx 1 (.entDecide 1 2 (.ok 1 false)),
   dTx 0 (.entDecide 2 2 (.ok 0 false)), dTx 1 (.entDecide 2 2 (.ok 1 false))].foldl
    (fun s tx => (deliverTx Facts.anteOrder 0 s tx).1) { initState dGen with time := 1700000005 * nsPerSec }

theorem c14_orders_overflow_halts :
    (dBegin oDecided 1700000010).ent.acceptedQ = [1, 2] ∧
    (beginBlock Facts.beginBlockSteps { dBegin oDecided 1700000010 with time := 1700000015 * nsPerSec }).isOk = false := by
  decide +kernel

end C14
end Mainchain
