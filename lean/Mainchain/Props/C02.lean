import Mainchain.Lemmas.BankTotalReach
/-
C02 — Native coin supply changes only through approved purchase orders.

`FineReach g (BooksQ D) s` as in C04.  Supply and balances are those of bank-lite (the model of
x/bank restricted to the scenario accounts and the module accounts; the validator environment —
staking, distribution, gov deposits — is outside the model and is compared as a delta by the
correspondence harness).
-/
namespace Mainchain
namespace C02
open AL Bank

def C02ex : GenCfg :=
  { timeSec := 1700000000,
    accts := [{ id := 0, exists_ := true, balance := [{ denom := "atoken", amt := 7 }, { denom := "nund", amt := 1000 }], vest := none },
              { id := 1, exists_ := true, balance := [{ denom := "nund", amt := 500 }], vest := none }] }

/-- The recorded supply changes in exactly one kind of elementary step: the completion of an accepted
purchase order during BeginBlock, and then by exactly that order's amount in the enterprise
denomination.  Every message of every kind (transfers, stream operations, registrations, parameter
updates, authz-wrapped or governance-executed), every ante effect (fee deduction, eFUND unlock), the
tally and block-time advance leave the supply of every denomination unchanged; nothing in the model
burns. -/
theorem c02_supply_changes_only_by_completion (g : GenCfg) (hg : GenBooksValid g) (s s' : State)
    (h : FineReach g (BooksQ g.ent.denom) s) (hq : BooksQ g.ent.denom s) (hs : FineStep s s') :
    (∀ d, s'.bank.supplyOf d = s.bank.supplyOf d) ∨
    (∃ id po, find? s.ent.orders id = some po ∧ po.status = stAccepted ∧ po.denom = g.ent.denom ∧
      find? s'.ent.orders id = some { po with status := stCompleted } ∧
      ∀ d, (s'.bank.supplyOf d : Int) = s.bank.supplyOf d + (if d = g.ent.denom then po.amt else 0)) := by
  have ha := entAll_reachable g hg s h
  cases hs with
  | leaf wall m r hl _ hsig hx =>
    left; intro d
    have := (leaf_keeps_Ment wall s s' m r hl hsig hx ha.str.bank).2.2
    unfold supplyOf; rw [this]
  | ante tx hu hgr hx =>
    cases hx with
    | none hs => subst hs; exact Or.inl (fun _ => rfl)
    | unlock payer x hp _ hlk hx hs =>
      subst hs
      left; intro d
      rcases unlockForFees_bank _ _ _ _ _ hx with he | ⟨amt, hund⟩
      · show x.bank.supplyOf d = _; rw [he]
      · obtain ⟨_, sb, _, _⟩ := undelegate_spec s.bank x.bank _ Ment payer amt ha.str.bank
          (locked_nonvesting _ _ Ment (ha.str.modNoVest Ment (by decide))) hund
        show x.bank.supplyOf d = _; unfold supplyOf; rw [sb]
    | deduct payer src b hp hsrc hx hs =>
      subst hs
      left; intro d
      have hpu := payer_user tx payer hu hp
      have hsne : Ment ≠ src := by
        rcases hsrc with he | hal
        · subst he; intro e; subst e; simp [Ment] at hpu
        · exact fun e => maySign_ne_Ment src (hgr.2 src payer hal) e.symm
      have := (sendCoins_keeps Ment src Mfee _ _ _ _ hsne (by decide) hx ha.str.bank).2.2
      show b.supplyOf d = _; unfold supplyOf; rw [this]
  | time t _ hs => subst hs; exact Or.inl (fun _ => rfl)
  | complete id x hx hs =>
    subst hs
    obtain ⟨_, po, a, hf, hst, _, hD, _, _, _, hsup, _⟩ := completeOne_spec g.ent.denom s x id ha.books ha.book ha.str hx
    right
    obtain ⟨_, po', hf', _, hf''⟩ := completeOne_orders _ x _ _ id hx
    simp only at hf' hf''
    rw [hf] at hf'; cases hf'
    exact ⟨id, po, hf, hst, hD, hf'', hsup⟩
  | tally id e _ hs => subst hs; exact Or.inl (fun _ => rfl)

/-- **Σ balances = supply.**  In every state of every run (in particular at every block boundary) the sum
over all accounts of the balances in a denomination equals the recorded supply of that denomination, for
every denomination. -/
theorem c02_balances_sum_to_supply (g : GenCfg) (hg : GenBooksValid g) (hb : Balanced (initState g).bank) (s : State)
    (h : FineReach g (BooksQ g.ent.denom) s) (d : String) : (s.bank.totalOf d : Int) = s.bank.supplyOf d :=
  balanced_reachable g hg hb s h d

/-- the bank's `MintCoins` is called at exactly one place in the application code that `NewApp`
reaches: `MintCoinsAndLock` of x/enterprise (the second call site is the test helper
`initAccountWithCoins`); nothing calls `BurnCoins`; no x/mint module is wired; only the enterprise and
IBC transfer module accounts hold the Minter permission.  Regenerated from the source on every run. -/
theorem c02_mint_sites_and_permissions :
    Facts.mintCallSites = [("app/test_helpers.go", "initAccountWithCoins"), ("x/enterprise/keeper/locked.go", "Keeper.MintCoinsAndLock")] ∧
    Facts.burnCallSites = [] ∧
    Facts.moduleManagerNames.contains "mint" = false ∧ Facts.moduleManagerModules.contains "mint" = false ∧
    (Facts.maccPerms.filter (fun e => e.2.contains "minter")).map (·.1) = ["enterprise", "transfer"] := by
  decide

/-- the only bank operation of the model that changes a supply is `mint`, and the model calls it only
from `mintAndLock` (called only from `completeOne`); a successful `mintAndLock` of a positive coin adds
exactly that coin to the supply and to the escrow -/
theorem c02_mint_adds_exactly (D : String) (y y' : EB) (now : Int) (a : Addr) (c : Coin) (hc : 0 < c.amt)
    (hokL : ∀ b k, find? y.ent.locked b = some k → k.denom = D ∧ 0 ≤ k.amt)
    (htl : y.ent.totalLocked.denom = D) (hbank : BankInv y.bank) (hnv : find? y.bank.vest Ment = none)
    (h : EB.mintAndLock y now isBlocked a c = .ok y') :
    c.denom = D ∧ (∀ d', (y'.bank.supplyOf d' : Int) = y.bank.supplyOf d' + (if d' = D then c.amt else 0)) ∧
    (∀ a' d', (y'.bank.balOf a' d' : Int) = y.bank.balOf a' d' + (if a' = Ment ∧ d' = D then c.amt else 0)) := by
  obtain ⟨h1, _, _, _, _, _, _, _, hbal, hsup, _⟩ := mintAndLock_spec D y y' now a c hc hokL htl hbank hnv h
  exact ⟨h1, hsup, hbal⟩

-- non-vacuity: a concrete scenario genesis is balanced
example : ∀ d ∈ ["nund", "atoken"], ((initState C02ex).bank.totalOf d : Int) = (initState C02ex).bank.supplyOf d := by decide

end C02
end Mainchain
