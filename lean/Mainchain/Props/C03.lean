import Mainchain.Lemmas.EntBlock
/-
C03 — Purchase orders mint only after quorum approval, exactly once.

`FineReach g EntQ s` : `s` is any state of any run from the scenario genesis `g` (every message kind,
authz nesting of any depth, governance, ante effects, block hooks) along which the 64-bit order-id
counter has not reached 2^64 − 1 (history assumption `EntQ`).
-/
namespace Mainchain
namespace C03
open AL

/-- A purchase order can be raised only by a whitelisted address (for a positive amount in the
enterprise denomination); it starts raised, undecided, with the next order id. -/
theorem c03_raise_requires_whitelisted (wall : Nat) (s s' : State) (r : Resp) (p : AddrTok) (amt : Int) (denom : String)
    (h : execMsg wall s (.entRaise p amt denom) = .ok (s', r)) :
    ∃ a, p.decode = some a ∧ s.ent.whitelist.contains a = true ∧ denom = s.ent.params.denom ∧ 0 < amt ∧
      find? s'.ent.orders s.ent.nextId = some { id := s.ent.nextId, purchaser := p, denom := denom, amt := amt, status := stRaised, raiseTime := s.nowSecU, completionTime := 0, decisions := [] } := by
  simp only [execMsg, EntState.raise, bind_eq_ok, pure_eq_ok, Prod.mk.injEq, require_eq_ok, decide_eq_true_eq, decodeM_eq_ok] at h
  obtain ⟨x, ⟨a, ha, _, hd, _, hamt, _, hwl, hx⟩, rfl, _⟩ := h
  subst hx
  exact ⟨a, ha, hwl, hd, hamt, find_insert_eq _ _ _⟩

/-- A decision is recorded only for a currently authorised signer, on an order that is still raised,
which that signer (whatever the spelling of its address) has not decided yet; the decision is
appended under the canonical spelling and nothing else of the order changes. -/
theorem c03_decision_requires_current_signer (wall : Nat) (s s' : State) (r : Resp) (id dec : Nat) (sg : AddrTok)
    (h : execMsg wall s (.entDecide id dec sg) = .ok (s', r)) :
    ∃ a po, sg.decode = some a ∧ a ∈ s.ent.params.signerAddrs ∧ find? s.ent.orders id = some po ∧
      po.status = stRaised ∧ (dec = stAccepted ∨ dec = stRejected) ∧
      (∀ d ∈ po.decisions, d.signer.decode ≠ some a) ∧
      find? s'.ent.orders id = some { po with decisions := po.decisions ++ [{ signer := AddrTok.canon a, decision := dec, time := s.nowSecU }] } := by
  simp only [execMsg, EntState.decide_, bind_eq_ok, pure_eq_ok, Prod.mk.injEq, require_eq_ok, decide_eq_true_eq, decodeM_eq_ok] at h
  obtain ⟨e, ⟨a, ha, _, hauth, po, hpo, _, hdec, _, _, _, hst, _, hnot, rfl⟩, rfl, _⟩ := h
  refine ⟨a, po, ha, ?_, findOrder_ok _ _ _ hpo, hst, ?_, ?_, find_insert_eq _ _ _⟩
  · simpa [EntState.isAuthorised] using hauth
  · simpa [validAcceptReject] using hdec
  · intro d hd
    simp only [EntState.alreadyDecided, Bool.not_eq_true', List.any_eq_false, Bool.or_eq_true, decide_eq_true_eq, not_or] at hnot
    exact (hnot d hd).2

/-- In every state of every run each order's decisions come from pairwise distinct signer addresses
(one decision per signer), each an accept or a reject stored under the canonical spelling. -/
theorem c03_one_decision_per_signer (g : GenCfg) (s : State) (h : FineReach g EntQ s) (id : Nat) (po : PO)
    (hf : find? s.ent.orders id = some po) :
    (po.decisions.map (fun d => d.signer.decode)).Nodup ∧
    ∀ d ∈ po.decisions, (∃ a, d.signer = AddrTok.canon a) ∧ (d.decision = stAccepted ∨ d.decision = stRejected) := by
  have hd := (bookInv_reachable g s h).decs id po hf
  refine ⟨hd.1, fun d hm => ⟨(hd.2 d hm).1, ?_⟩⟩
  simpa [validAcceptReject] using (hd.2 d hm).2

/-- the tally rule of the statement, in plain arithmetic -/
def tallyRule (signers minAccepts limit now raiseTime accepts rejects : Nat) : Option Nat :=
  if now - raiseTime ≥ limit ∧ accepts < minAccepts then some stRejected
  else if rejects > signers - minAccepts then some stRejected
  else if accepts ≥ minAccepts then some stAccepted
  else none

/-- The decision function of the code (64-bit and `int` conversions included) is the three-clause rule
of the statement, in that priority, whenever the parameters are valid and time has not run backwards. -/
theorem c03_tally_rule (p : EntParams) (now : Nat) (po : PO) (hv : p.minAccepts ≤ p.signers.length)
    (hsmall : p.minAccepts < two63) (ht : po.raiseTime ≤ now) :
    EntState.tallyDecision p now po =
      tallyRule p.signers.length p.minAccepts p.decisionLimit now po.raiseTime
        (po.decisions.filter (·.decision = stAccepted)).length (po.decisions.filter (·.decision = stRejected)).length := by
  unfold EntState.tallyDecision tallyRule
  have h1 : intOfU64 p.minAccepts = (p.minAccepts : Int) := by simp [intOfU64, i64OfU64, hsmall]
  have h2 : subU64 now po.raiseTime = now - po.raiseTime := by simp [subU64, ht]
  simp only [h1, h2]
  have e1 : ∀ (a : Nat), ((a : Int) < (p.minAccepts : Int)) ↔ a < p.minAccepts := fun a => by omega
  have e2 : ∀ (a : Nat), ((a : Int) > (p.signers.length : Int) - (p.minAccepts : Int)) ↔ a > p.signers.length - p.minAccepts := fun a => by omega
  have e3 : ∀ (a : Nat), ((a : Int) ≥ (p.minAccepts : Int)) ↔ a ≥ p.minAccepts := fun a => by omega
  simp only [e1, e2, e3]

/-- **An order is accepted only on the accepts of at least `MinAccepts` pairwise distinct addresses** — however often an
address is listed in the signer parameter, whoever else decided, and whatever happened to the signer list since: the tally
counts the accept decisions recorded on the order, and in every state of every run those come from pairwise distinct
addresses (one decision per address, each made by an address that was an authorised signer when it decided:
`c03_decision_requires_current_signer`). -/
theorem c03_accept_needs_min_accepts_distinct_addresses (g : GenCfg) (s : State) (h : FineReach g EntQ s) (id : Nat) (po : PO)
    (hf : find? s.ent.orders id = some po) (now : Nat) (hv : s.ent.params.minAccepts ≤ s.ent.params.signers.length)
    (hsmall : s.ent.params.minAccepts < two63) (ht : po.raiseTime ≤ now)
    (hacc : EntState.tallyDecision s.ent.params now po = some stAccepted) :
    s.ent.params.minAccepts ≤ (po.decisions.filter (·.decision = stAccepted)).length ∧
    ((po.decisions.filter (·.decision = stAccepted)).map (fun d => d.signer.decode)).Nodup := by
  constructor
  · rw [c03_tally_rule s.ent.params now po hv hsmall ht] at hacc
    unfold tallyRule at hacc
    split at hacc
    · simp [stRejected, stAccepted] at hacc
    · split at hacc
      · simp [stRejected, stAccepted] at hacc
      · split at hacc
        · rename_i hge; exact hge
        · cases hacc
  · exact List.Nodup.sublist (List.Sublist.map _ List.filter_sublist) (c03_one_decision_per_signer g s h id po hf).1

/-- At each block every raised order gets exactly the decision of the rule (stale/rejected →
rejected, quorum → accepted, otherwise it stays raised); the tally changes no other order. -/
theorem c03_tally_applies_rule_to_every_raised_order (g : GenCfg) (s : State) (h : FineReach g EntQ s)
    (now : Nat) (e' : EntState) (ht : s.ent.tally now = .ok e') (id : Nat) (po : PO) (hf : find? s.ent.orders id = some po) :
    find? e'.orders id = some (if po.status = stRaised then tallyRec s.ent.params now po else po) ∧
    tallyRec s.ent.params now po =
      (match EntState.tallyDecision s.ent.params now po with
       | none => po
       | some st => { po with status := st, completionTime := now }) :=
  ⟨(tally_spec s.ent e' now (bookInv_reachable g s h) ht).2 id po hf, rfl⟩

/-- Status only ever moves raised → accepted → completed or raised → rejected: between any state of a
run and any later state of the same run every order is still there with the same id, purchaser,
amount and raise time, its status further along that order, its decisions extended only while raised;
rejected and completed orders are identical for ever. -/
theorem c03_status_transitions_and_terminal_frozen (g : GenCfg) (a b : State) (ha : FineReach g EntQ a)
    (hp : FinePathQ EntQ a b) (id : Nat) (po : PO) (hf : find? a.ent.orders id = some po) :
    ∃ po', find? b.ent.orders id = some po' ∧ po'.id = po.id ∧ po'.purchaser = po.purchaser ∧ po'.amt = po.amt ∧
      po'.denom = po.denom ∧ po'.raiseTime = po.raiseTime ∧ StatusLE po.status po'.status ∧
      (po.status = stRejected ∨ po.status = stCompleted → po' = po) ∧
      (po.status ≠ stRaised → po'.decisions = po.decisions ∧ po'.completionTime = po.completionTime) := by
  obtain ⟨po', hf', ev⟩ := path_bookLE ha hp id po hf
  exact ⟨po', hf', ev.id, ev.purchaser, ev.amt, ev.denom, ev.raiseTime, ev.status, ev.frozen,
    fun hne => ⟨ev.decisionsFrozen hne, ev.completionFrozen hne⟩⟩

/-- the enterprise BeginBlocker of the repository runs the completion pass before the tally
(regenerated from x/enterprise/abci.go on every run) -/
theorem c03_begin_block_order : Facts.beginBlockSteps = ["ProcessAcceptedPurchaseOrders", "TallyPurchaseOrderDecisions"] := by
  decide

/-- An accepted order is completed in the following block — and not earlier: BeginBlock completes every
order that was accepted when the block began, and an order accepted by this block's tally was raised
when the block began (so it stays accepted for the whole block: no message changes a status). -/
theorem c03_completed_in_the_following_block (g : GenCfg) (s s' : State) (h : FineReach g EntQ s)
    (hb : beginBlock Facts.beginBlockSteps s = .ok s') (id : Nat) (po : PO) (hf : find? s.ent.orders id = some po) :
    (po.status = stAccepted → find? s'.ent.orders id = some { po with status := stCompleted }) ∧
    (∀ po', find? s'.ent.orders id = some po' → po'.status = stAccepted → po.status = stRaised) := by
  rw [c03_begin_block_order] at hb
  have hs := beginBlock_orders s s' (bookInv_reachable g s h) hb id po hf
  constructor
  · intro ha; rw [hs]; simp [ha]
  · intro po' hf' hacc
    rw [hs] at hf'
    by_cases h1 : po.status = stAccepted
    · simp only [h1, if_true, Option.some.injEq] at hf'
      subst hf'; exact absurd hacc (by simp [stCompleted, stAccepted])
    · by_cases h2 : po.status = stRaised
      · exact h2
      · simp only [h1, h2, if_false, Option.some.injEq] at hf'
        subst hf'; exact absurd hacc h1

/-- Completing an order credits exactly its amount as locked eFUND to its purchaser (and to the
total), once: the completion step needs status accepted and leaves status completed. -/
theorem c03_completion_credits_exactly_the_amount (x x' : EB) (now : Int) (id : Nat)
    (h : EB.completeOne x now isBlocked id = .ok x') :
    ∃ po a, find? x.ent.orders id = some po ∧ po.status = stAccepted ∧ po.purchaser.decode = some a ∧
      find? x'.ent.orders id = some { po with status := stCompleted } ∧
      (x'.ent.lockedOf a).amt = (x.ent.lockedOf a).amt + po.amt ∧
      x'.ent.totalLocked.amt = x.ent.totalLocked.amt + po.amt ∧
      (∀ b, b ≠ a → find? x'.ent.locked b = find? x.ent.locked b) := by
  have ho := completeOne_orders x x' now isBlocked id h
  obtain ⟨_, po, hf, hst, hf'⟩ := ho
  unfold EB.completeOne at h
  rw [hf] at h
  simp only [hst] at h
  split at h
  · exact absurd rfl (by assumption)
  · split at h
    · cases h
    · rename_i a ha
      simp only [bind_eq_ok, pure_eq_ok] at h
      obtain ⟨x2, hx2, rfl⟩ := h
      refine ⟨po, a, hf, hst, ha, hf', ?_⟩
      have hm := asPanic_ok _ _ hx2
      unfold EB.mintAndLock at hm
      split at hm
      · rename_i hz
        cases hm
        simp only at hz
        simp [EntState.lockedOf, hz]
      · simp only [bind_eq_ok, EB.incrementLocked, coinAdd, pure_eq_ok] at hm
        obtain ⟨_, _, b1, _, _, _, b2, _, b3, _, l, ⟨_, _, _, _, rfl⟩, t, ⟨_, _, _, _, rfl⟩, rfl⟩ := hm
        refine ⟨?_, rfl, ?_⟩
        · simp [EntState.lockedOf, find_insert_eq]
        · intro b hb
          have : a ≠ b := fun h => hb h.symm
          simp [find_insert_ne _ _ _ _ this]

/-- No elementary step other than a completion raises anybody's locked eFUND, and the order book
(ids, statuses, queues) is consistent in every state: the raised / accepted queues are exactly the
orders with that status, in ascending id order without repetition. -/
theorem c03_queues_match_status (g : GenCfg) (s : State) (h : FineReach g EntQ s) :
    (∀ id, id ∈ s.ent.raisedQ ↔ ∃ po, find? s.ent.orders id = some po ∧ po.status = stRaised) ∧
    (∀ id, id ∈ s.ent.acceptedQ ↔ ∃ po, find? s.ent.orders id = some po ∧ po.status = stAccepted) ∧
    s.ent.raisedQ.Nodup ∧ s.ent.acceptedQ.Nodup ∧
    (∀ id po, find? s.ent.orders id = some po → po.id = id ∧ id < s.ent.nextId ∧ validPoStatus po.status = true) := by
  have hi := bookInv_reachable g s h
  exact ⟨hi.rq, hi.aq, asc_nodup _ hi.rqAsc, asc_nodup _ hi.aqAsc, fun id po hf => ⟨hi.idKey id po hf, hi.fresh id po hf, hi.status id po hf⟩⟩

-- non-vacuity: concrete instances of the hypotheses
def exParams : EntParams := { denom := "nund", minAccepts := 2, decisionLimit := 30, signers := [.ok 0 false, .ok 1 false, .ok 2 true] }
def exPO : PO := { id := 1, purchaser := .ok 5 false, denom := "nund", amt := 777, status := stRaised, raiseTime := 100, completionTime := 0
                   decisions := [{ signer := .ok 0 false, decision := stAccepted, time := 101 }, { signer := .ok 1 false, decision := stAccepted, time := 102 }] }
example : EntState.tallyDecision exParams 110 exPO = some stAccepted := by decide +kernel
example : EntState.tallyDecision exParams 110 { exPO with decisions := exPO.decisions.take 1 } = none := by decide +kernel
example : EntState.tallyDecision exParams 130 { exPO with decisions := exPO.decisions.take 1 } = some stRejected := by decide +kernel
example : exParams.minAccepts ≤ exParams.signers.length ∧ exParams.minAccepts < two63 ∧ exPO.raiseTime ≤ 110 := by decide

end C03
end Mainchain
