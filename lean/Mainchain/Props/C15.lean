import Mainchain.Lemmas.RegCanon
import Mainchain.Lemmas.Witness
import Mainchain.Lemmas.RegistryReach
/-
C15 — Genesis export and import are lossless.

`Genesis.exportImport order s` models `ExportAppStateAndValidators` on state `s` followed by `InitChain`
on a fresh application whose module manager initialises the modules in `order` — the list regenerated
from `genesisModuleOrder` in app/app.go on every run — with the crisis module asserting every registered
invariant on what has been imported when its turn comes.
-/
namespace Mainchain
namespace C15
open AL Bank Genesis

/-- the genesis order of the repository: every module whose registered invariant depends on the bank's
balances (enterprise, stream) is initialised before crisis, and bank before them -/
theorem c15_genesis_order :
    Facts.initGenesisOrder = ["capability", "auth", "bank", "distribution", "staking", "slashing", "gov", "enterprise", "stream",
      "crisis", "ibc", "genutil", "evidence", "authz", "transfer", "feegrant", "group", "params", "upgrade", "vesting", "consensus",
      "enterprise", "beacon", "wrkchain"] := by decide

/-- **Import succeeds.**  For every state of every run in which nobody has sent coins to the gov module
account (known finding: the SDK's gov genesis refuses such a balance), exporting and initialising a fresh
chain from the export succeeds: the enterprise and stream balance checks of `InitGenesis` pass and every
registered invariant asserted by crisis during `InitChain` holds.  The result is given explicitly. -/
theorem c15_import_succeeds (g : GenCfg) (hg : GenBooksValid g) (s : State) (h : FineReach g (BooksQ g.ent.denom) s)
    (hq : s.ent.params.denom = g.ent.denom) (hgov : (s.bank.allBalances Mgov).isEmpty = true) :
    exportImport Facts.initGenesisOrder s =
      .ok { bank := s.bank, ent := importEnt s.ent, wrk := importReg s.wrk, bcn := importReg s.bcn, str := s.str,
            grants := s.grants, allowances := s.allowances, time := s.time } := by
  have ha := entAll_reachable g hg s h
  have h1 : balancesEqCoin s.bank Ment s.ent.totalLocked = true :=
    balancesEqCoin_of_pointwise _ _ _ (fun d => by rw [ha.books.escrow d, ha.books.totL])
  have h2 : ∀ (e : EntState) (w b : RegState),
      strInvariantOk { bank := s.bank, ent := e, wrk := w, bcn := b, str := s.str, grants := s.grants, allowances := s.allowances, time := s.time } = true := by
    intro e w b
    exact strInvariantOk_of_inv _ ⟨ha.str.nodup, ha.str.bank, ha.str.modNoVest, ha.str.nonneg, ha.str.backed⟩
  have h3 : ∀ (w b : RegState) (st : StreamState),
      entInvariantOk { bank := s.bank, ent := importEnt s.ent, wrk := w, bcn := b, str := st, grants := s.grants, allowances := s.allowances, time := s.time } = true := by
    intro w b st
    exact entInvariantOk_of_books g.ent.denom _ hq ha.books.nodupL ha.books.okL ha.books.totL ha.books.escrow ha.books.sumL
  have hsteps : (Facts.initGenesisOrder.map gstepOf).filter (· ≠ .other) =
      [.bank, .gov, .enterprise, .stream, .crisis, .enterprise, .beacon, .wrkchain] := by decide
  have h1' : balancesEqCoin s.bank Ment (importEnt s.ent).totalLocked = true := h1
  have hc : ([] ++ [GStep.bank] ++ [GStep.gov] ++ [GStep.enterprise] ++ [GStep.stream]).contains GStep.enterprise = true := by decide
  unfold exportImport
  rw [hsteps]
  simp only [List.foldlM_cons, List.foldlM_nil, importStep, blank, bind, Except.bind, pure, Except.pure,
    require, hgov, h1', h2, h3, hc, if_true]

/-- **Lossless for enterprise, stream and bank.**  After the import the bank (balances, supply, vesting
records, accounts), the stream section (every stream and the validator fee), the authorisations and fee
allowances and the block time are identical, and the enterprise section is observably identical: parameters,
the order-id counter, every purchase order, both queues (rebuilt from the order statuses — an order caught
in raised or accepted status is queued again), the whitelist, the locked / spent books and both totals. -/
theorem c15_enterprise_stream_bank_lossless (g : GenCfg) (hg : GenBooksValid g) (s : State) (h : FineReach g (BooksQ g.ent.denom) s)
    (hq : s.ent.params.denom = g.ent.denom) (hgov : (s.bank.allBalances Mgov).isEmpty = true) :
    ∃ s', exportImport Facts.initGenesisOrder s = .ok s' ∧
      s'.bank = s.bank ∧ s'.str = s.str ∧ s'.grants = s.grants ∧ s'.allowances = s.allowances ∧ s'.time = s.time ∧
      s'.ent.params = s.ent.params ∧ s'.ent.nextId = s.ent.nextId ∧
      (∀ id, find? s'.ent.orders id = find? s.ent.orders id) ∧
      (∀ id, id ∈ s'.ent.raisedQ ↔ id ∈ s.ent.raisedQ) ∧ (∀ id, id ∈ s'.ent.acceptedQ ↔ id ∈ s.ent.acceptedQ) ∧
      (∀ a, a ∈ s'.ent.whitelist ↔ a ∈ s.ent.whitelist) ∧
      s'.ent.locked = s.ent.locked ∧ s'.ent.spent = s.ent.spent ∧
      s'.ent.totalLocked = s.ent.totalLocked ∧ s'.ent.totalSpent = s.ent.totalSpent := by
  have ha := entAll_reachable g hg s h
  obtain ⟨o1, o2, o3, o4, o5, o6, o7, o8, o9, o10⟩ := importEnt_observe s.ent ha.book
  exact ⟨_, c15_import_succeeds g hg s h hq hgov, rfl, rfl, rfl, rfl, rfl, o1, o2, o3, o4, o5, o6, o7, o8, o9, o10⟩

/-- **The enterprise section is identical.**  Orders are stored by ascending id and the whitelist ascending in
every state of every run, and the import rebuilds both in that order: the imported enterprise state is the
*same value* as the exported one (not merely observably equal), and so are the bank, the stream section, the
authorisations, the fee allowances and the block time.  Every later transaction that does not read the
WRKChain / BEACON sections therefore has literally the same effect on both chains. -/
theorem c15_enterprise_identical (g : GenCfg) (hg : GenBooksValid g) (s : State) (h : FineReach g (BooksQ g.ent.denom) s)
    (hq : s.ent.params.denom = g.ent.denom) (hgov : (s.bank.allBalances Mgov).isEmpty = true) :
    exportImport Facts.initGenesisOrder s = .ok { s with wrk := importReg s.wrk, bcn := importReg s.bcn } := by
  rw [c15_import_succeeds g hg s h hq hgov]
  obtain ⟨hb, hc⟩ := canon_reachable g s (h.weaken (fun _ hq => hq.2.1))
  rw [importEnt_eq s.ent hb hc]

/-- **The WRKChain and BEACON sections, entry by entry.**  After the import each registry has the same
parameters and id counter, every registration with its owner, moniker, name, hashes, registration time and last
height / id, the stored limit of every registration, and exactly the newest 20,000 records of every
registration; the two counters of a registration (number in state, lowest in state) are recomputed from those
records. -/
theorem c15_registries_newest (g : GenCfg) (hg : GenBooksValid g) (hr : GenRegValid g) (s : State)
    (h : FineReach g (fun s => BooksQ g.ent.denom s ∧ RegQ s) s)
    (hq : s.ent.params.denom = g.ent.denom) (hgov : (s.bank.allBalances Mgov).isEmpty = true) :
    ∃ s', exportImport Facts.initGenesisOrder s = .ok s' ∧ RegNewest s.wrk s'.wrk ∧ RegNewest s.bcn s'.bcn := by
  refine ⟨_, c15_enterprise_identical g hg s (h.weaken (fun _ hq => hq.1)) hq hgov, ?_, ?_⟩
  · exact importReg_newest s.wrk (wrkInv_reachable g hr s (h.weaken (fun _ hq => hq.2.1))).reg
  · exact importReg_newest s.bcn (bcnInv_reachable g hr s (h.weaken (fun _ hq => hq.2.2))).reg

/-- **Lossless registries.**  When no registration retains more than 20,000 records (always the case while the
maximum storage limit parameter is at most 20,000) nothing is dropped and the recomputed counters are the stored
ones: every point read of the imported WRKChain and BEACON sections — parameters, id counter, registration,
limit, record — answers exactly as before the export. -/
theorem c15_registries_lossless (g : GenCfg) (hg : GenBooksValid g) (hr : GenRegValid g) (s : State)
    (h : FineReach g (fun s => BooksQ g.ent.denom s ∧ RegQ s) s)
    (hq : s.ent.params.denom = g.ent.denom) (hgov : (s.bank.allBalances Mgov).isEmpty = true)
    (hcw : ∀ id, (s.wrk.retained id).length ≤ exportCap) (hcb : ∀ id, (s.bcn.retained id).length ≤ exportCap) :
    ∃ s', exportImport Facts.initGenesisOrder s = .ok s' ∧ s'.ent = s.ent ∧ s'.bank = s.bank ∧ s'.str = s.str ∧
      RegSame s.wrk s'.wrk ∧ RegSame s.bcn s'.bcn := by
  refine ⟨_, c15_enterprise_identical g hg s (h.weaken (fun _ hq => hq.1)) hq hgov, rfl, rfl, rfl, ?_, ?_⟩
  · exact importReg_same_wrk s.wrk (wrkInv_reachable g hr s (h.weaken (fun _ hq => hq.2.1))) hcw
  · exact importReg_same_bcn s.bcn (bcnInv_reachable g hr s (h.weaken (fun _ hq => hq.2.2))) hcb

/-- **Export followed by import is the identity.**  Every section of the model state is stored in the order the
store iterates it — orders, registrations and limits by ascending id, records by ascending store key, the
whitelist ascending — in every state of every run; the import rebuilds exactly that order.  When no registration
retains more than 20,000 records the imported chain is therefore in the *same state* as the exported one … -/
theorem c15_export_import_identity (g : GenCfg) (hg : GenBooksValid g) (hr : GenRegValid g) (s : State)
    (h : FineReach g (fun s => BooksQ g.ent.denom s ∧ RegQ s) s)
    (hq : s.ent.params.denom = g.ent.denom) (hgov : (s.bank.allBalances Mgov).isEmpty = true)
    (hcw : ∀ id, (s.wrk.retained id).length ≤ exportCap) (hcb : ∀ id, (s.bcn.retained id).length ≤ exportCap) :
    exportImport Facts.initGenesisOrder s = .ok s := by
  rw [c15_enterprise_identical g hg s (h.weaken (fun _ hq => hq.1)) hq hgov]
  obtain ⟨hw, hwc⟩ := wrkCanon_reachable g hr s (h.weaken (fun _ hq => hq.2.1))
  obtain ⟨hb, hbc⟩ := bcnCanon_reachable g hr s (h.weaken (fun _ hq => hq.2.2))
  rw [importReg_eq s.wrk hw.reg hwc (importReg_same_wrk s.wrk hw hcw), importReg_eq s.bcn hb.reg hbc (importReg_same_bcn s.bcn hb hcb)]

/-- … **so the same subsequent transactions, blocks and governance proposals have the same effects on both
chains**, and exporting again gives the identical document: whatever is computed from the imported state is
computed from the exported one. -/
theorem c15_same_future (g : GenCfg) (hg : GenBooksValid g) (hr : GenRegValid g) (s : State)
    (h : FineReach g (fun s => BooksQ g.ent.denom s ∧ RegQ s) s)
    (hq : s.ent.params.denom = g.ent.denom) (hgov : (s.bank.allBalances Mgov).isEmpty = true)
    (hcw : ∀ id, (s.wrk.retained id).length ≤ exportCap) (hcb : ∀ id, (s.bcn.retained id).length ≤ exportCap) :
    ∃ s', exportImport Facts.initGenesisOrder s = .ok s' ∧
      (∀ wall tx, deliverTx Facts.anteOrder wall s' tx = deliverTx Facts.anteOrder wall s tx) ∧
      (∀ tx, checkTx Facts.anteOrder s' tx = checkTx Facts.anteOrder s tx) ∧
      (∀ t, beginBlock Facts.beginBlockSteps { s' with time := t } = beginBlock Facts.beginBlockSteps { s with time := t }) ∧
      (∀ wall msgs, govExecAll wall s' msgs = govExecAll wall s msgs) ∧
      exportImport Facts.initGenesisOrder s' = exportImport Facts.initGenesisOrder s :=
  ⟨s, c15_export_import_identity g hg hr s h hq hgov hcw hcb, fun _ _ => rfl, fun _ => rfl, fun _ => rfl, fun _ _ => rfl, rfl⟩

/-- the enterprise section is imported twice (it is listed twice in the genesis order): the second import
changes nothing, because the import is a function of the exported document alone -/
theorem c15_double_enterprise_import_idempotent (exp : State) (acc : State × List GStep)
    (h1 : balancesEqCoin acc.1.bank Ment (importEnt exp.ent).totalLocked = true) :
    ∃ acc1 acc2, importStep exp acc .enterprise = .ok acc1 ∧ importStep exp acc1 .enterprise = .ok acc2 ∧ acc2.1 = acc1.1 := by
  refine ⟨({ acc.1 with ent := importEnt exp.ent }, acc.2 ++ [.enterprise]), ({ acc.1 with ent := importEnt exp.ent }, acc.2 ++ [.enterprise] ++ [.enterprise]), ?_, ?_, rfl⟩
  · simp [importStep, h1, require, bind, Except.bind, pure, Except.pure]
  · simp [importStep, h1, require, bind, Except.bind, pure, Except.pure]

/-- a genesis order that initialises the stream module after crisis (as the repository did before the
repair) makes the import of any state holding a stream deposit panic: the negation witness of the
repaired defect, kept as a regression theorem on a concrete state -/
def wGen : GenCfg :=
  { timeSec := 1700000000,
    accts := [{ id := 0, exists_ := true, balance := [{ denom := "nund", amt := 1000000 }], vest := none },
              { id := 1, exists_ := true, balance := [{ denom := "nund", amt := 1000000 }], vest := none }],
    ent := { denom := "nund", minAccepts := 1, decisionLimit := 30, signers := [.ok 0 false] },
    wrk := { denom := "nund", feeReg := 24, feeRec := 2, feeBuy := 2, defLimit := 3, maxLimit := 6 },
    bcn := { denom := "nund", feeReg := 24, feeRec := 2, feeBuy := 2, defLimit := 3, maxLimit := 6 } }

def wState : State :=
  (deliverTx Facts.anteOrder 0 { initState wGen with time := 1700000005 * nsPerSec }
    { signers := [0], granter := none, fee := [], sig := .ok, msgs := [.strCreate (.ok 1 false) (.ok 0 false) 6000 "nund" 1] }).1

theorem c15_stream_after_crisis_panics :
    (exportImport ["bank", "gov", "enterprise", "crisis", "enterprise", "beacon", "wrkchain", "stream"] wState).isOk = false ∧
    (exportImport Facts.initGenesisOrder wState).isOk = true := by
  decide +kernel

/-- non-vacuity of the registry statements: a state with a WRKChain that retains its newest three of four
records (limit 3) and a BEACON with two timestamps; the import succeeds and every registration, limit and record is
read back unchanged -/
def rTx (_n : Nat) (fee : Int) (m : Msg) : Tx :=
  { signers := [0], granter := none, fee := (if fee = 0 then [] else [{ denom := "nund", amt := fee }]), sig := .ok, msgs := [m] }

def rRec (h : String) : Rec := { key := 0, h0 := h, h1 := "", h2 := "", h3 := "", h4 := "", subTime := 0 }

def rState : State :=
  [rTx 1 24 (.regReg .wrk "mon" "name" "gen" "geth" (.ok 0 false)),
   rTx 2 24 (.regReg .bcn "mon" "name" "" "" (.ok 0 false)),
   rTx 3 2 (.regRec .wrk 1 1 (rRec "a") (.ok 0 false)), rTx 4 2 (.regRec .wrk 1 2 (rRec "b") (.ok 0 false)),
   rTx 5 2 (.regRec .wrk 1 5 (rRec "c") (.ok 0 false)), rTx 6 2 (.regRec .wrk 1 9 (rRec "d") (.ok 0 false)),
   rTx 7 2 (.regRec .bcn 1 0 { rRec "x" with subTime := 1700000005 } (.ok 0 false)), rTx 8 2 (.regRec .bcn 1 0 { rRec "y" with subTime := 1700000005 } (.ok 0 false))].foldl
    (fun s tx => (deliverTx Facts.anteOrder 0 s tx).1) { initState wGen with time := 1700000005 * nsPerSec }

def rCheck : Bool :=
  decide (keys rState.wrk.recs = [(1, 2), (1, 5), (1, 9)]) && decide (keys rState.bcn.recs = [(1, 1), (1, 2)]) &&
  (match exportImport Facts.initGenesisOrder rState with
   | .ok s' => decide (s'.ent.orders = rState.ent.orders) && decide (s'.wrk.regs = rState.wrk.regs) && decide (s'.wrk.limits = rState.wrk.limits) &&
       decide (s'.wrk.recs = rState.wrk.recs) && decide (s'.bcn.regs = rState.bcn.regs) && decide (s'.bcn.recs = rState.bcn.recs)
   | .error _ => false)

example : rCheck = true := by decide +kernel

/-- **known finding (same root cause as C14 halt/B-denom-change), negation witness.**  An order is raised,
accepted by two of three signers, tallied and completed (777 nund locked); governance then changes the enterprise
denomination to `atoken`.  The books stay in `nund`: the export of that state cannot be imported — enterprise
`InitGenesis` panics in the balance comparison — while the same history without the parameter change imports
fine.  The theorems above exclude such histories by `BooksQ` (the denomination is the genesis one). -/
def dChanged : State :=
  (govExec 0 dLocked (.entParams (.ok Mgov false) { dGen.ent with denom := "atoken" })).1

theorem c15_denom_change_breaks_import :
    dLocked.ent.totalLocked = { denom := "nund", amt := 777 } ∧ dChanged.ent.params.denom = "atoken" ∧
    (exportImport Facts.initGenesisOrder dLocked).isOk = true ∧
    (exportImport Facts.initGenesisOrder dChanged).isOk = false := by
  decide +kernel

/-- the export cap of the model is the source's, in both modules -/
theorem c15_limits_from_source :
    AL.find? Facts.limits "wrkchain.MaxBlockSubmissionsKeepInState" = some exportCap ∧
    AL.find? Facts.limits "beacon.MaxHashSubmissionsToExport" = some exportCap := by decide

end C15
end Mainchain
