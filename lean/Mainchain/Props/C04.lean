import Mainchain.Lemmas.EntBooksReach
/-
C04 — Locked eFUND books always balance.

`FineReach g (BooksQ D) s` : `s` is any state of any run from the scenario genesis `g` (all message
kinds, nesting, governance, ante effects, block hooks) along which the bank's vesting arithmetic is
sane, the order-id counter has not wrapped and governance has not changed the enterprise
denomination `D` (history assumption `BooksQ`; the last clause is the known finding C14/denom-change).
-/
namespace Mainchain
namespace C04
open AL Bank

/-- In every state of every run the enterprise escrow account's balance equals the reported total
locked eFUND (and is empty in every other denomination), which equals the sum of all per-account
locked amounts; the reported total spent equals the sum of the per-account spent amounts; all
entries are non-negative amounts of the enterprise denomination. -/
theorem c04_books_balance (g : GenCfg) (hg : GenBooksValid g) (s : State) (h : FineReach g (BooksQ g.ent.denom) s) :
    (∀ d, (s.bank.balOf Ment d : Int) = if d = g.ent.denom then s.ent.totalLocked.amt else 0) ∧
    s.ent.totalLocked.amt = sumF coinAmt s.ent.locked ∧
    s.ent.totalSpent.amt = sumF coinAmt s.ent.spent ∧
    (∀ a c, find? s.ent.locked a = some c → c.denom = g.ent.denom ∧ 0 ≤ c.amt) ∧
    (∀ a c, find? s.ent.spent a = some c → c.denom = g.ent.denom ∧ 0 ≤ c.amt) := by
  have hi := (entAll_reachable g hg s h).books
  exact ⟨hi.escrow, hi.sumL.symm, hi.sumS.symm, hi.okL, hi.okS⟩

/-- For every account, locked plus spent equals the sum of its completed purchase orders. -/
theorem c04_locked_plus_spent_eq_purchased (g : GenCfg) (hg : GenBooksValid g) (s : State)
    (h : FineReach g (BooksQ g.ent.denom) s) (a : Addr) :
    (s.ent.lockedOf a).amt + (s.ent.spentOf a).amt =
      sumF (fun po => if po.status = stCompleted ∧ po.purchaser.decode = some a then po.amt else 0) s.ent.orders :=
  (entAll_reachable g hg s h).books.perAcct a

/-- No elementary step other than an order completion (credit of exactly the order's amount) or a fee
unlock (debit of exactly the amount moved from locked to spent) changes the escrow balance: every
message of every kind — transfers aimed at the escrow, stream operations naming it, authz-wrapped
messages — fee deduction, the tally and block-time advance leave it as it was. -/
theorem c04_escrow_moves_only_by_completion_or_unlock (g : GenCfg) (hg : GenBooksValid g) (s s' : State)
    (h : FineReach g (BooksQ g.ent.denom) s) (hq : BooksQ g.ent.denom s) (hs : FineStep s s') :
    (∀ d, s'.bank.balOf Ment d = s.bank.balOf Ment d) ∨
    (∃ id po, find? s.ent.orders id = some po ∧ po.status = stAccepted ∧
      ∀ d, (s'.bank.balOf Ment d : Int) = s.bank.balOf Ment d + (if d = g.ent.denom then po.amt else 0)) ∨
    (∃ payer k, 0 < k ∧ (s'.ent.lockedOf payer).amt = (s.ent.lockedOf payer).amt - k ∧
      (s'.ent.spentOf payer).amt = (s.ent.spentOf payer).amt + k ∧
      ∀ d, (s'.bank.balOf Ment d : Int) = s.bank.balOf Ment d - (if d = g.ent.denom then k else 0)) := by
  have ha := entAll_reachable g hg s h
  have ha' := entAll_reachable g hg s' (.step s s' h hq hs)
  cases hs with
  | leaf wall m r hl _ hsig hx => exact Or.inl (leaf_keeps_Ment wall s s' m r hl hsig hx ha.str.bank).2.1
  | ante tx hu hgr hx =>
    cases hx with
    | none hs => subst hs; exact Or.inl (fun _ => rfl)
    | unlock payer x hp _ hlk hx hs =>
      subst hs
      have hpu := payer_user tx payer hu hp
      have hpM : payer ≠ Ment := by intro e; subst e; simp [Ment] at hpu
      obtain ⟨_, _, k, hk0, _, h1, h2, _, hz, hpos, _⟩ := unlockForFees_spec g.ent.denom s x payer tx.fee ha.books hq.2.2 ha.str hpM hlk hx
      by_cases hk : k = 0
      · left; intro d; rw [(hz hk).1]
      · right; right
        refine ⟨payer, k, by omega, h1, h2, ?_⟩
        intro d
        have e1 := ha.books.escrow d
        have e2 := ha'.books.escrow d
        simp only at e2
        rw [e1, e2]
        have hs1 := ha.books.sumL
        have hs2 := ha'.books.sumL
        -- total locked moved by exactly k
        obtain ⟨amt, hund, hsum⟩ := hpos (by omega)
        obtain ⟨_, _, _, eb⟩ := undelegate_spec s.bank x.bank _ Ment payer amt ha.str.bank
          (locked_nonvesting _ _ Ment (ha.str.modNoVest Ment (by decide))) hund
        have := eb Ment g.ent.denom
        rw [outSum_self, outSum_other payer amt Ment _ hpM, hsum] at this
        have e1' := ha.books.escrow g.ent.denom
        have e2' := ha'.books.escrow g.ent.denom
        simp only [if_true] at e1' e2'
        by_cases hd : d = g.ent.denom
        · simp only [hd, if_true]; omega
        · simp [hd]
    | deduct payer src b hp hsrc hx hs =>
      subst hs
      have hpu := payer_user tx payer hu hp
      have hsne : Ment ≠ src := by
        rcases hsrc with he | hal
        · subst he; intro e; subst e; simp [Ment] at hpu
        · exact fun e => maySign_ne_Ment src (hgr.2 src payer hal) e.symm
      exact Or.inl (sendCoins_keeps Ment src Mfee _ _ _ _ hsne (by decide) hx ha.str.bank).2.1
  | time t _ hs => subst hs; exact Or.inl (fun _ => rfl)
  | complete id x hx hs =>
    subst hs
    obtain ⟨_, po, a, hf, hst, _, _, _, _, hbal, _⟩ := completeOne_spec g.ent.denom s x id ha.books ha.book ha.str hx
    right; left
    exact ⟨id, po, hf, hst, fun d => by rw [hbal Ment d]; simp⟩
  | tally id e _ hs => subst hs; exact Or.inl (fun _ => rfl)

/-- a direct transfer aimed at the enterprise escrow account is refused (blocked recipient) -/
theorem c04_send_to_escrow_rejected (wall : Nat) (s : State) (src : AddrTok) (coins : Coins) (s' : State) (r : Resp) :
    execMsg wall s (.bankSend src (.ok Ment false) coins) ≠ .ok (s', r) := by
  intro h
  simp only [execMsg, bind_eq_ok, pure_eq_ok, require_eq_ok, decodeM_eq_ok, AddrTok.decode, Option.some.injEq] at h
  obtain ⟨_, _, b, hb, _, hbl, _⟩ := h
  subst hb
  simp [isBlocked_Ment] at hbl

/-- the enterprise escrow is a blocked address of the application (regenerated from app.go: every
module account except gov is blocked) and only `enterprise` and `transfer` hold the Minter permission -/
theorem c04_escrow_blocked_and_minters : isBlocked Ment = true ∧ isBlocked Mstr = true ∧
    (Facts.maccPerms.filter (fun e => e.2.contains "minter")).map (·.1) = ["enterprise", "transfer"] := by
  decide

/-- **Whitelist administration touches the whitelist and nothing else**: adding or removing an address - also one whose
locked eFUND has been spent down to zero - leaves every locked record, every spent record, both running totals, the
orders and both queues exactly as they were (so the three book equations of `c04_books_balance` and
`c04_locked_plus_spent_eq_purchased` cannot be disturbed by it). -/
theorem c04_whitelist_change_leaves_the_books (e e' : EntState) (action : Nat) (addrT signerT : AddrTok)
    (h : e.whitelistMsg action addrT signerT = .ok e') :
    e'.locked = e.locked ∧ e'.spent = e.spent ∧ e'.totalLocked = e.totalLocked ∧ e'.totalSpent = e.totalSpent ∧
    e'.orders = e.orders ∧ e'.raisedQ = e.raisedQ ∧ e'.acceptedQ = e.acceptedQ ∧ e'.params = e.params ∧ e'.nextId = e.nextId := by
  simp only [EntState.whitelistMsg, bind_eq_ok, pure_eq_ok, require_eq_ok, decodeM_eq_ok] at h
  obtain ⟨_, _, _, _, _, _, h⟩ := h
  split at h
  · simp only [bind_eq_ok, pure_eq_ok, require_eq_ok] at h
    obtain ⟨_, _, _, _, rfl⟩ := h
    simp
  · simp only [bind_eq_ok, pure_eq_ok, require_eq_ok] at h
    obtain ⟨_, _, _, _, rfl⟩ := h
    simp

-- non-vacuity: a genesis that satisfies the hypotheses
def exGen : GenCfg :=
  { timeSec := 1700000000,
    accts := [{ id := 0, exists_ := true, balance := [{ denom := "nund", amt := 1000 }], vest := none }] }
example : ∀ d ∈ ["nund", "atoken"], (initState exGen).bank.balOf Ment d = 0 := by decide

end C04
end Mainchain
