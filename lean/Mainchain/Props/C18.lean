import Mainchain.Lemmas.Keys
import Mainchain.Lemmas.EntBlock
import Mainchain.Lemmas.RegistryStable
import Mainchain.Lemmas.StreamFrame
/-
C18 — Distinct entities never alias each other's storage.
Property theorems (no helper lemmas here beyond local `private` ones).
-/
namespace Mainchain
namespace C18
open Keys

/-- big-endian encoding round-trips for every 64-bit value -/
theorem c18_u64be_roundtrip (n : Nat) (h : n < 18446744073709551616) : u64beDecode (u64be n) = some n := by
  simp only [u64be, u64beDecode, Option.some.injEq]
  omega

/-- … hence the id encoding is injective on the whole uint64 domain (incl. 0 and 2^64−1) -/
theorem c18_u64be_inj (a b : Nat) (ha : a < 18446744073709551616) (hb : b < 18446744073709551616)
    (h : u64be a = u64be b) : a = b := by
  have h1 := c18_u64be_roundtrip a ha
  have h2 := c18_u64be_roundtrip b hb
  rw [h] at h1
  rw [h1] at h2
  exact Option.some.inj h2

theorem u64be_length (n : Nat) : (u64be n).length = 8 := by simp [u64be]

/-- single-id keys (purchase orders, both queues, registrations, storage limits) are injective -/
theorem c18_idKey_inj (p a b : Nat) (ha : a < 18446744073709551616) (hb : b < 18446744073709551616)
    (h : idKey p a = idKey p b) : a = b := by
  simp only [idKey, List.cons.injEq, true_and] at h
  exact c18_u64be_inj a b ha hb h

/-- record keys (registration id, height / timestamp id) are injective as pairs -/
theorem c18_id2Key_inj (p i h i' h' : Nat)
    (h1 : i < 18446744073709551616) (h2 : h < 18446744073709551616)
    (h3 : i' < 18446744073709551616) (h4 : h' < 18446744073709551616)
    (e : id2Key p i h = id2Key p i' h') : i = i' ∧ h = h' := by
  simp only [id2Key, List.cons.injEq, true_and] at e
  have hl : (u64be i).length = (u64be i').length := by simp [u64be_length]
  have := List.append_inj e hl
  exact ⟨c18_u64be_inj i i' h1 h3 this.1, c18_u64be_inj h h' h2 h4 this.2⟩

/-- address-keyed sections (locked, spent, whitelist) are injective -/
theorem c18_addrKey_inj (p : Nat) (a b : Bytes) (h : addrKey p a = addrKey p b) : a = b := by
  simpa [addrKey] using h

/-- keys of different sections differ, and no key of one section is matched by the scan prefix of another -/
theorem c18_sections_disjoint (p q : Nat) (hpq : p ≠ q) (x y : Bytes) : p :: x ≠ q :: y := by
  intro h; exact hpq (List.cons.inj h).1

theorem c18_scan_disjoint (p q : Nat) (hpq : p ≠ q) (y : Bytes) : isPrefix [p] (q :: y) = false := by
  simp [isPrefix, Ne.symm hpq]

/-- a per-registration record scan (`prefix ‖ id`) matches exactly the records of that registration -/
theorem c18_record_scan_exact (p i i' h : Nat)
    (h1 : i < 18446744073709551616) (h3 : i' < 18446744073709551616) :
    isPrefix (idKey p i) (id2Key p i' h) = true ↔ i = i' := by
  simp only [isPrefix, idKey, id2Key, List.length_cons, u64be_length, decide_eq_true_eq]
  constructor
  · intro e
    have : (p :: (u64be i' ++ u64be h)).take 9 = p :: u64be i' := by
      simp [List.take, u64be]
    rw [this] at e
    simp only [List.cons.injEq, true_and] at e
    exact (c18_u64be_inj i' i h3 h1 e).symm
  · intro e; subst e
    simp [List.take, u64be]

/-- the section prefixes actually used by each module are pairwise distinct (regenerated table) -/
theorem c18_prefixes_distinct :
    ∀ m ∈ ["enterprise", "wrkchain", "beacon", "stream"],
      ((Facts.storePrefixes.filter (fun e => e.1 = m)).map (·.2.2)).Nodup := by
  decide

/-- every generated prefix is a single byte -/
theorem c18_prefixes_are_bytes : Facts.storePrefixes.all (fun e => e.2.2 < 256) = true := by decide

/-- store iteration order on ids is numeric order: big-endian bytes compare like the numbers -/
theorem c18_u64be_order (a b : Nat) (ha : a < 18446744073709551616) (hb : b < 18446744073709551616) :
    lexLt (u64be a) (u64be b) = true ↔ a < b := by
  have wa : ∀ x ∈ u64be a, x < 256 := by
    intro x hx; simp only [u64be, List.mem_cons, List.not_mem_nil, or_false] at hx; omega
  have wb : ∀ x ∈ u64be b, x < 256 := by
    intro x hx; simp only [u64be, List.mem_cons, List.not_mem_nil, or_false] at hx; omega
  rw [lexLt_iff_beVal _ _ (by simp [u64be]) wa wb, beVal_u64be a ha, beVal_u64be b hb]

/-- listing records of one registration (ids share the prefix) returns them in ascending height order -/
theorem c18_record_order (p i h h' : Nat) (hh : h < 18446744073709551616) (hh' : h' < 18446744073709551616) :
    lexLt (id2Key p i h) (id2Key p i h') = true ↔ h < h' := by
  have key : ∀ (pre : Bytes) (x y : Bytes), lexLt (pre ++ x) (pre ++ y) = lexLt x y := by
    intro pre x y
    induction pre with
    | nil => rfl
    | cons c cs ih => simp [lexLt_cons, ih]
  have : id2Key p i h = (p :: u64be i) ++ u64be h := by simp [id2Key]
  rw [this, show id2Key p i h' = (p :: u64be i) ++ u64be h' by simp [id2Key], key]
  exact c18_u64be_order h h' hh hh'

/-! streams: length-prefixed receiver then sender -/

theorem c18_streamKey_shape (p : Nat) (r s : Bytes) (hr : 0 < r.length) (hr' : r.length ≤ 255)
    (hs : 0 < s.length) (hs' : s.length ≤ 255) :
    streamKey p r s = some (p :: r.length :: (r ++ s.length :: s)) := by
  simp only [streamKey, recvKey, lengthPrefix]
  have h1 : ¬ r.length = 0 := by omega
  have h2 : ¬ r.length > 255 := by omega
  have h3 : ¬ s.length = 0 := by omega
  have h4 : ¬ s.length > 255 := by omega
  simp [h1, h2, h3, h4]

/-- a stream listed from the store is reported with exactly the receiver and sender it was created with,
for every address length from 1 to 255 -/
theorem c18_stream_key_roundtrip (p : Nat) (r s : Bytes) (hr : 0 < r.length) (hr' : r.length ≤ 255)
    (hs : 0 < s.length) (hs' : s.length ≤ 255) :
    (streamKey p r s).bind parseStreamKey = some (r, s) := by
  rw [c18_streamKey_shape p r s hr hr' hs hs']
  exact parse_shape p r s

/-- stream keys are injective in (receiver, sender) -/
theorem c18_stream_key_inj (p : Nat) (r s r' s' : Bytes)
    (hr : 0 < r.length) (hr' : r.length ≤ 255) (hs : 0 < s.length) (hs' : s.length ≤ 255)
    (hr2 : 0 < r'.length) (hr2' : r'.length ≤ 255) (hs2 : 0 < s'.length) (hs2' : s'.length ≤ 255)
    (e : streamKey p r s = streamKey p r' s') : r = r' ∧ s = s' := by
  have h1 := c18_stream_key_roundtrip p r s hr hr' hs hs'
  have h2 := c18_stream_key_roundtrip p r' s' hr2 hr2' hs2 hs2'
  rw [e, h2] at h1
  have := Option.some.inj h1
  exact ⟨(Prod.mk.inj this).1.symm, (Prod.mk.inj this).2.symm⟩

/-- listing the streams of one receiver matches exactly that receiver's streams, also for receivers of
different lengths that share a byte prefix -/
theorem c18_receiver_scan_exact (p : Nat) (r r' s : Bytes)
    (hr : 0 < r.length) (hr' : r.length ≤ 255) (hr2 : 0 < r'.length) (hr2' : r'.length ≤ 255)
    (hs : 0 < s.length) (hs' : s.length ≤ 255) :
    (do let pre ← recvKey p r; let k ← streamKey p r' s; pure (isPrefix pre k)) = some true ↔ r = r' := by
  rw [c18_streamKey_shape p r' s hr2 hr2' hs hs']
  have h1 : ¬ r.length = 0 := by omega
  have h2 : ¬ r.length > 255 := by omega
  simp only [recvKey, lengthPrefix, h1, h2, if_false, Option.map_some, Option.bind_eq_bind, Option.bind_some,
    Option.pure_def, Option.some.injEq, isPrefix, decide_eq_true_eq, List.length_cons]
  constructor
  · intro e
    rw [show r.length + 1 + 1 = (r.length + 1) + 1 by omega, List.take_succ_cons, List.take_succ_cons] at e
    simp only [List.cons.injEq, true_and] at e
    obtain ⟨hl, ht⟩ := e
    rw [← hl, List.take_append_of_le_length (by omega)] at ht
    rw [List.take_of_length_le (by omega)] at ht
    exact ht.symm
  · intro e; subst e
    rw [show r.length + 1 + 1 = (r.length + 1) + 1 by omega, List.take_succ_cons, List.take_succ_cons]
    simp

/-- over-long addresses are rejected by the builder (panic in `MustLengthPrefix`) -/
theorem c18_stream_key_rejects_long (p : Nat) (r s : Bytes) (h : 255 < r.length) : streamKey p r s = none := by
  have h1 : ¬ r.length = 0 := by omega
  simp [streamKey, recvKey, lengthPrefix, h1, h]

/-! ### the same at the level of the handlers: what is written to one purchase order is not read for another -/

/-- **A decision writes one order.**  A successful `ProcessUndPurchaseOrder` on order `id` leaves every other order, both
queues, the whitelist, every locked and spent record, both totals and the parameters exactly as they were. -/
theorem c18_decision_writes_one_order (e e' : EntState) (now id dec : Nat) (sg : AddrTok)
    (h : e.decide_ now id dec sg = .ok e') :
    (∀ j, j ≠ id → AL.find? e'.orders j = AL.find? e.orders j) ∧
    e'.raisedQ = e.raisedQ ∧ e'.acceptedQ = e.acceptedQ ∧ e'.whitelist = e.whitelist ∧ e'.locked = e.locked ∧
    e'.spent = e.spent ∧ e'.totalLocked = e.totalLocked ∧ e'.totalSpent = e.totalSpent ∧ e'.params = e.params ∧
    e'.nextId = e.nextId := by
  simp only [EntState.decide_, bind_eq_ok, pure_eq_ok, require_eq_ok, decodeM_eq_ok] at h
  obtain ⟨_, _, _, _, po, _, _, _, _, _, _, _, _, _, rfl⟩ := h
  refine ⟨fun j hj => ?_, rfl, rfl, rfl, rfl, rfl, rfl, rfl, rfl, rfl⟩
  exact AL.find_insert_ne _ _ _ _ (fun e => hj e.symm)

/-- **The tally of an order reads that order only** (and the parameters): in any two states of any two runs that hold the
same order under `id` and the same enterprise parameters, the tally at the same block time leaves the same order under
`id` - whatever decisions the other raised orders of either state carry, and in whatever order they are tallied. -/
theorem c18_tally_reads_only_the_order_itself (g1 g2 : GenCfg) (s1 s2 : State)
    (h1 : FineReach g1 EntQ s1) (h2 : FineReach g2 EntQ s2) (now : Nat) (e1 e2 : EntState)
    (ht1 : s1.ent.tally now = .ok e1) (ht2 : s2.ent.tally now = .ok e2) (hp : s1.ent.params = s2.ent.params)
    (id : Nat) (po : PO) (hf1 : AL.find? s1.ent.orders id = some po) (hf2 : AL.find? s2.ent.orders id = some po) :
    AL.find? e1.orders id = AL.find? e2.orders id := by
  rw [(tally_spec s1.ent e1 now (bookInv_reachable g1 s1 h1) ht1).2 id po hf1,
      (tally_spec s2.ent e2 now (bookInv_reachable g2 s2 h2) ht2).2 id po hf2, hp]

/-- **A record writes one registration.**  In every state of every run, a successful `RecordWrkChainBlock` /
`RecordBeaconTimestamp` for registration `id` - including the pruning it triggers - leaves every other registration, every
record of every other registration and every storage limit exactly as they were. -/
theorem c18_record_writes_one_registration (g : GenCfg) (hg : GenRegValid g) (s : State) (hs : FineReach g RegQ s)
    (hq : RegQ s) (now wall id key : Nat) (rc : Rec) (o : AddrTok) (k : Nat) :
    (∀ w', s.wrk.record now wall id key rc o = .ok (w', k) →
      (∀ j, j ≠ id → AL.find? w'.regs j = AL.find? s.wrk.regs j ∧ ∀ h, AL.find? w'.recs (j, h) = AL.find? s.wrk.recs (j, h)) ∧
      w'.limits = s.wrk.limits) ∧
    (∀ b', s.bcn.record now wall id key rc o = .ok (b', k) →
      (∀ j, j ≠ id → AL.find? b'.regs j = AL.find? s.bcn.regs j ∧ ∀ h, AL.find? b'.recs (j, h) = AL.find? s.bcn.recs (j, h)) ∧
      b'.limits = s.bcn.limits) := by
  constructor
  · intro w' h
    have hwi := wrkInv_reachable g hg s (hs.weaken (fun _ h => h.1))
    obtain ⟨m, oa, hm, _, _, _, _, hshape⟩ := wrk_record_shape s.wrk now wall id key rc o w' k hwi hq.1 h
    have hid : m.id = id := (hwi.reg.idsBelowNext id m hm).1
    subst hid
    rcases hshape with ⟨_, _, rfl⟩ | ⟨_, rfl⟩
    · refine ⟨fun j hj => ⟨AL.find_insert_ne _ _ _ _ (fun e => hj e.symm), fun h => ?_⟩, rfl⟩
      have hne1 : (m.id, m.lowest) ≠ (j, h) := fun e => hj (Prod.mk.inj e).1.symm
      have hne2 : (m.id, key) ≠ (j, h) := fun e => hj (Prod.mk.inj e).1.symm
      show AL.find? (AL.erase (insertRec s.wrk.recs (m.id, key) _) (m.id, m.lowest)) (j, h) = _
      rw [AL.find_erase_ne _ _ _ hne1, find_insertRec_ne _ _ _ _ hne2]
    · refine ⟨fun j hj => ⟨AL.find_insert_ne _ _ _ _ (fun e => hj e.symm), fun h => ?_⟩, rfl⟩
      have hne2 : (m.id, key) ≠ (j, h) := fun e => hj (Prod.mk.inj e).1.symm
      exact find_insertRec_ne _ _ _ _ hne2
  · intro b' h
    have hbi := bcnInv_reachable g hg s (hs.weaken (fun _ h => h.2))
    obtain ⟨m, oa, hm, _, _, _, _, hshape⟩ := bcn_record_shape s.bcn now wall id key rc o b' k hbi hq.2 h
    have hid : m.id = id := (hbi.reg.idsBelowNext id m hm).1
    subst hid
    rcases hshape with ⟨_, _, rfl⟩ | ⟨_, rfl⟩
    · refine ⟨fun j hj => ⟨AL.find_insert_ne _ _ _ _ (fun e => hj e.symm), fun h => ?_⟩, rfl⟩
      have hne1 : (m.id, m.lowest) ≠ (j, h) := fun e => hj (Prod.mk.inj e).1.symm
      have hne2 : (m.id, m.last + 1) ≠ (j, h) := fun e => hj (Prod.mk.inj e).1.symm
      show AL.find? (AL.erase (insertRec s.bcn.recs (m.id, m.last + 1) _) (m.id, m.lowest)) (j, h) = _
      rw [AL.find_erase_ne _ _ _ hne1, find_insertRec_ne _ _ _ _ hne2]
    · refine ⟨fun j hj => ⟨AL.find_insert_ne _ _ _ _ (fun e => hj e.symm), fun h => ?_⟩, rfl⟩
      have hne2 : (m.id, m.last + 1) ≠ (j, h) := fun e => hj (Prod.mk.inj e).1.symm
      exact find_insertRec_ne _ _ _ _ hne2

/-- **A stream message writes one stream.**  Each of the five stream messages, when it succeeds for the pair
(receiver `r`, sender `s`) its address fields decode to, leaves every other stream - every other pair, including the
reversed pair (s, r) and pairs sharing the receiver or the sender - and the fee parameter exactly as they were. -/
theorem c18_stream_message_writes_one_stream (x : SB) (now : Int) (blocked : Addr → Bool) (rT sT : AddrTok) (r s : Addr)
    (hr : rT.decode = some r) (hs : sT.decode = some s) :
    (∀ denom amt rate x', createStream x now blocked rT sT denom amt rate = .ok x' → OthersSame x x' r s) ∧
    (∀ y, claimStream x now blocked rT sT = .ok y → OthersSame x y.1 r s) ∧
    (∀ denom amt y, topUpDeposit x now blocked rT sT denom amt = .ok y → OthersSame x y.1 r s) ∧
    (∀ rate x', updateFlowRate x now blocked rT sT rate = .ok x' → OthersSame x x' r s) ∧
    (∀ x', cancelStreamMsg x now blocked rT sT = .ok x' → OthersSame x x' r s) := by
  refine ⟨?_, ?_, ?_, ?_, ?_⟩
  · intro denom amt rate x' h
    simp only [createStream, bind_eq_ok, require_eq_ok, decodeM_eq_ok] at h
    obtain ⟨s0, hs0, r0, hr0, _, _, _, _, _, _, _, _, _, _, _, _, h⟩ := h
    rw [hs] at hs0; rw [hr] at hr0; cases hs0; cases hr0
    have h1 : OthersSame x { x with str := setStream x r s (Stream.mk denom 0 rate now 0 true) } r s :=
      ⟨rfl, fun k hk => AL.find_insert_ne _ _ _ _ (Ne.symm hk)⟩
    exact othersSame_trans h1 (addDeposit_frame _ x' now blocked r s denom amt h)
  · intro y h
    simp only [claimStream, bind_eq_ok, require_eq_ok, decodeM_eq_ok] at h
    obtain ⟨s0, hs0, r0, hr0, _, _, h⟩ := h
    rw [hs] at hs0; rw [hr] at hr0; cases hs0; cases hr0
    exact claim_frame x now blocked r s y h
  · intro denom amt y h
    simp only [topUpDeposit, bind_eq_ok, pure_eq_ok, require_eq_ok, decodeM_eq_ok] at h
    obtain ⟨s0, hs0, r0, hr0, _, _, st, _, _, _, x', hx', rfl⟩ := h
    rw [hs] at hs0; rw [hr] at hr0; cases hs0; cases hr0
    exact addDeposit_frame x x' now blocked r s denom amt hx'
  · intro rate x' h
    simp only [updateFlowRate, bind_eq_ok, require_eq_ok, decodeM_eq_ok] at h
    obtain ⟨s0, hs0, r0, hr0, _, _, _, _, h⟩ := h
    rw [hs] at hs0; rw [hr] at hr0; cases hs0; cases hr0
    exact setNewFlowRate_frame x x' now blocked r s rate h
  · intro x' h
    simp only [cancelStreamMsg, bind_eq_ok, require_eq_ok, decodeM_eq_ok] at h
    obtain ⟨s0, hs0, r0, hr0, st, _, _, _, h⟩ := h
    rw [hs] at hs0; rw [hr] at hr0; cases hs0; cases hr0
    exact cancelStream_frame x x' now blocked r s h

/-- **A storage purchase writes one limit; a registration writes one new identifier.**  A successful purchase for `id`
leaves every registration, every record and every other registration's limit as they were; a successful registration
(which receives `s.nextId`) leaves every record and every other identifier's registration and limit as they were. -/
theorem c18_purchase_and_registration_write_one_entry (s : RegState) :
    (∀ id n o s' k, s.purchase id n o = .ok (s', k) →
      s'.regs = s.regs ∧ s'.recs = s.recs ∧ ∀ j, j ≠ id → AL.find? s'.limits j = AL.find? s.limits j) ∧
    (∀ now mk nm gn ty o s' id, s.register now mk nm gn ty o = .ok (s', id) →
      id = s.nextId ∧ s'.recs = s.recs ∧
      ∀ j, j ≠ id → AL.find? s'.regs j = AL.find? s.regs j ∧ AL.find? s'.limits j = AL.find? s.limits j) := by
  constructor
  · intro id n o s' k h
    simp only [RegState.purchase, bind_eq_ok, pure_eq_ok, require_eq_ok, decodeM_eq_ok, Prod.mk.injEq] at h
    obtain ⟨_, _, _, _, _, _, _, _, rfl, _⟩ := h
    exact ⟨rfl, rfl, fun j hj => AL.find_insert_ne _ _ _ _ (Ne.symm hj)⟩
  · intro now mk nm gn ty o s' id h
    simp only [RegState.register, bind_eq_ok, pure_eq_ok, require_eq_ok, decodeM_eq_ok, Prod.mk.injEq] at h
    obtain ⟨_, _, _, _, _, _, _, _, rfl, rfl⟩ := h
    refine ⟨rfl, rfl, fun j hj => ⟨?_, ?_⟩⟩
    · exact AL.find_insert_ne _ _ _ _ (Ne.symm hj)
    · exact AL.find_insert_ne _ _ _ _ (Ne.symm hj)

/-- **An unlock writes one account's books.**  `UnlockCoinsForFees` for the fee payer leaves the locked record and the
spent record of every other address, the orders, the queues and the whitelist exactly as they were - whichever of its three
branches is taken. -/
theorem c18_unlock_writes_one_account (x x' : EB) (nowSec : Int) (payer : Addr) (fees : Coins)
    (h : x.unlockForFees nowSec payer fees = .ok x') :
    (∀ b, b ≠ payer → AL.find? x'.ent.locked b = AL.find? x.ent.locked b ∧ AL.find? x'.ent.spent b = AL.find? x.ent.spent b) ∧
    x'.ent.orders = x.ent.orders ∧ x'.ent.raisedQ = x.ent.raisedQ ∧ x'.ent.acceptedQ = x.ent.acceptedQ ∧
    x'.ent.whitelist = x.ent.whitelist ∧ x'.ent.params = x.ent.params := by
  have dec : ∀ (y y' : EB) (c : Coin), y.decrementLocked payer c = .ok y' →
      (∀ b, b ≠ payer → AL.find? y'.ent.locked b = AL.find? y.ent.locked b) ∧ y'.ent.spent = y.ent.spent ∧
      y'.ent.orders = y.ent.orders ∧ y'.ent.raisedQ = y.ent.raisedQ ∧ y'.ent.acceptedQ = y.ent.acceptedQ ∧
      y'.ent.whitelist = y.ent.whitelist ∧ y'.ent.params = y.ent.params := by
    intro y y' c hd
    simp only [EB.decrementLocked, bind_eq_ok, pure_eq_ok] at hd
    obtain ⟨_, _, _, _, rfl⟩ := hd
    exact ⟨fun b hb => AL.find_insert_ne _ _ _ _ (Ne.symm hb), rfl, rfl, rfl, rfl, rfl, rfl⟩
  have inc : ∀ (y y' : EB) (c : Coin), y.incrementSpent payer c = .ok y' →
      (∀ b, b ≠ payer → AL.find? y'.ent.spent b = AL.find? y.ent.spent b) ∧ y'.ent.locked = y.ent.locked ∧
      y'.ent.orders = y.ent.orders ∧ y'.ent.raisedQ = y.ent.raisedQ ∧ y'.ent.acceptedQ = y.ent.acceptedQ ∧
      y'.ent.whitelist = y.ent.whitelist ∧ y'.ent.params = y.ent.params := by
    intro y y' c hd
    simp only [EB.incrementSpent, bind_eq_ok, pure_eq_ok] at hd
    obtain ⟨_, _, _, _, rfl⟩ := hd
    exact ⟨fun b hb => AL.find_insert_ne _ _ _ _ (Ne.symm hb), rfl, rfl, rfl, rfl, rfl, rfl⟩
  have both : ∀ (y y1 y' : EB) (c : Coin), y.ent = x.ent → y.decrementLocked payer c = .ok y1 → y1.incrementSpent payer c = .ok y' →
      (∀ b, b ≠ payer → AL.find? y'.ent.locked b = AL.find? x.ent.locked b ∧ AL.find? y'.ent.spent b = AL.find? x.ent.spent b) ∧
      y'.ent.orders = x.ent.orders ∧ y'.ent.raisedQ = x.ent.raisedQ ∧ y'.ent.acceptedQ = x.ent.acceptedQ ∧
      y'.ent.whitelist = x.ent.whitelist ∧ y'.ent.params = x.ent.params := by
    intro y y1 y' c hy h1 h2
    obtain ⟨d1, d2, d3, d4, d5, d6, d7⟩ := dec y y1 c h1
    obtain ⟨i1, i2, i3, i4, i5, i6, i7⟩ := inc y1 y' c h2
    rw [← hy]
    exact ⟨fun b hb => ⟨by rw [i2]; exact d1 b hb, by rw [i1 b hb, d2]⟩, i3.trans d3, i4.trans d4, i5.trans d5, i6.trans d6, i7.trans d7⟩
  simp only [EB.unlockForFees, bind_eq_ok, require_eq_ok] at h
  obtain ⟨_, _, h⟩ := h
  split at h
  · simp only [bind_eq_ok] at h
    obtain ⟨bank, _, x1, h1, h2⟩ := h
    exact both { ent := x.ent, bank := bank } x1 x' _ rfl h1 h2
  · split at h
    · simp only [bind_eq_ok] at h
      obtain ⟨bank, _, x1, h1, h2⟩ := h
      exact both { ent := x.ent, bank := bank } x1 x' _ rfl h1 h2
    · simp only [pure_eq_ok] at h
      subst h
      exact ⟨fun _ _ => ⟨rfl, rfl⟩, rfl, rfl, rfl, rfl, rfl⟩

/-- **A completion writes one order and one account's locked record.**  Completing the accepted order `id` (mint to the
purchaser and lock) leaves every other order, the locked record of every address but the purchaser, every spent record,
the raised queue and the whitelist exactly as they were. -/
theorem c18_completion_writes_one_order_and_one_account (x x' : EB) (nowSec : Int) (blocked : Addr → Bool) (id : Nat)
    (h : x.completeOne nowSec blocked id = .ok x') :
    ∃ po purchaser, AL.find? x.ent.orders id = some po ∧ po.purchaser.decode = some purchaser ∧
      (∀ j, j ≠ id → AL.find? x'.ent.orders j = AL.find? x.ent.orders j) ∧
      (∀ b, b ≠ purchaser → AL.find? x'.ent.locked b = AL.find? x.ent.locked b) ∧
      x'.ent.spent = x.ent.spent ∧ x'.ent.raisedQ = x.ent.raisedQ ∧ x'.ent.whitelist = x.ent.whitelist ∧
      x'.ent.params = x.ent.params := by
  have inc : ∀ (y y' : EB) (a : Addr) (c : Coin), y.incrementLocked a c = .ok y' →
      (∀ b, b ≠ a → AL.find? y'.ent.locked b = AL.find? y.ent.locked b) ∧ y'.ent.spent = y.ent.spent ∧
      y'.ent.orders = y.ent.orders ∧ y'.ent.raisedQ = y.ent.raisedQ ∧ y'.ent.acceptedQ = y.ent.acceptedQ ∧
      y'.ent.whitelist = y.ent.whitelist ∧ y'.ent.params = y.ent.params := by
    intro y y' a c hd
    simp only [EB.incrementLocked, bind_eq_ok, pure_eq_ok] at hd
    obtain ⟨_, _, _, _, rfl⟩ := hd
    exact ⟨fun b hb => AL.find_insert_ne _ _ _ _ (Ne.symm hb), rfl, rfl, rfl, rfl, rfl, rfl⟩
  have mint : ∀ (y y' : EB) (a : Addr) (c : Coin), y.mintAndLock nowSec blocked a c = .ok y' →
      (∀ b, b ≠ a → AL.find? y'.ent.locked b = AL.find? y.ent.locked b) ∧ y'.ent.spent = y.ent.spent ∧
      y'.ent.orders = y.ent.orders ∧ y'.ent.raisedQ = y.ent.raisedQ ∧ y'.ent.acceptedQ = y.ent.acceptedQ ∧
      y'.ent.whitelist = y.ent.whitelist ∧ y'.ent.params = y.ent.params := by
    intro y y' a c hm
    unfold EB.mintAndLock at hm
    split at hm
    · cases hm; exact ⟨fun _ _ => rfl, rfl, rfl, rfl, rfl, rfl, rfl⟩
    · simp only [bind_eq_ok, require_eq_ok] at hm
      obtain ⟨_, _, b1, _, _, _, b2, _, b3, _, hm⟩ := hm
      exact inc { ent := y.ent, bank := b3 } y' a c hm
  unfold EB.completeOne at h
  split at h
  · cases h
  · rename_i po hpo
    split at h
    · cases h
    · split at h
      · cases h
      · rename_i purchaser hp
        simp only [bind_eq_ok, pure_eq_ok] at h
        obtain ⟨x2, hx2, rfl⟩ := h
        have asP : ∀ (r : M EB) (v : EB), EB.asPanic r = .ok v → r = .ok v := by
          intro r v hr
          cases r with
          | ok w => simpa [EB.asPanic] using hr
          | error e => cases e <;> simp [EB.asPanic] at hr
        have hx2' := asP _ _ hx2
        obtain ⟨m1, m2, m3, m4, m5, m6, m7⟩ := mint _ x2 purchaser _ hx2'
        refine ⟨po, purchaser, hpo, hp, fun j hj => ?_, m1, m2, m4, m6, m7⟩
        show AL.find? x2.ent.orders j = _
        rw [m3]
        exact AL.find_insert_ne _ _ _ _ (Ne.symm hj)

/-- what a message of one module may leave changed in the OTHER modules' sections: nothing -/
def OtherModulesSame (s s' : State) : Msg → Prop
  | .entRaise .. | .entDecide .. | .entWl .. | .entParams .. =>
      s'.wrk = s.wrk ∧ s'.bcn = s.bcn ∧ s'.str = s.str ∧ s'.bank = s.bank
  | .regReg k .. | .regRec k .. | .regBuy k .. | .regParams k .. =>
      s'.ent = s.ent ∧ s'.str = s.str ∧ s'.bank = s.bank ∧ (match k with | .wrk => s'.bcn = s.bcn | .bcn => s'.wrk = s.wrk)
  | .strCreate .. | .strClaim .. | .strTopup .. | .strRate .. | .strCancel .. | .strParams .. =>
      s'.ent = s.ent ∧ s'.wrk = s.wrk ∧ s'.bcn = s.bcn
  | .bankSend .. | .authzGrant .. | .authzRevoke .. | .feegrantGrant .. =>
      s'.ent = s.ent ∧ s'.wrk = s.wrk ∧ s'.bcn = s.bcn ∧ s'.str = s.str
  | .authzExec .. => True

/-- **The four modules' sections never alias each other**: an enterprise message writes the enterprise section only (not
even a balance), a WRKChain message the WRKChain section only and a BEACON message the BEACON section only (the two
registries share their code, not their state), a stream message the stream section and balances, and bank, authz and
fee-grant messages none of the four. -/
theorem c18_modules_do_not_write_each_other (wall : Nat) (s s' : State) (m : Msg) (r : Resp)
    (h : execMsg wall s m = .ok (s', r)) : OtherModulesSame s s' m := by
  cases m with
  | authzExec g ms => trivial
  | regReg k mk nm gn ty o =>
    simp only [execMsg, bind_eq_ok, pure_eq_ok, Prod.mk.injEq] at h
    obtain ⟨x, _, rfl, _⟩ := h
    cases k <;> simp [OtherModulesSame, State.setReg]
  | regRec k id key rc o =>
    simp only [execMsg, bind_eq_ok, pure_eq_ok, Prod.mk.injEq] at h
    obtain ⟨x, _, rfl, _⟩ := h
    cases k <;> simp [OtherModulesSame, State.setReg]
  | regBuy k id n o =>
    simp only [execMsg, bind_eq_ok, pure_eq_ok, Prod.mk.injEq] at h
    obtain ⟨x, _, rfl, _⟩ := h
    cases k <;> simp [OtherModulesSame, State.setReg]
  | regParams k auth p =>
    simp only [execMsg, bind_eq_ok, pure_eq_ok, Prod.mk.injEq] at h
    obtain ⟨_, _, x, _, rfl, _⟩ := h
    cases k <;> simp [OtherModulesSame, State.setReg]
  | _ =>
    simp only [execMsg, bind_eq_ok, pure_eq_ok, Prod.mk.injEq] at h
    first
      | (obtain ⟨_, _, rfl, _⟩ := h; simp [OtherModulesSame, liftSB])
      | (obtain ⟨_, _, _, _, rfl, _⟩ := h; simp [OtherModulesSame, liftSB])
      | (obtain ⟨_, _, _, _, _, _, rfl, _⟩ := h; simp [OtherModulesSame, liftSB])
      | (obtain ⟨_, _, _, _, _, _, _, _, rfl, _⟩ := h; simp [OtherModulesSame, liftSB])

-- non-vacuity: concrete keys
example : u64be 18446744073709551615 = [255,255,255,255,255,255,255,255] := by decide
example : (streamKey 17 [1,2,3] [1,2]).bind parseStreamKey = some ([1,2,3],[1,2]) := by decide
example : id2Key 2 0 18446744073709551615 ≠ id2Key 2 1 0 := by decide

end C18
end Mainchain
