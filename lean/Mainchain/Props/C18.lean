import Mainchain.Lemmas.Keys
/-
C18 — Distinct entities never alias each other's storage.
Property theorems (no helper lemmas here beyond local `private` ones).
-/
namespace Mainchain
namespace C18
open Keys

/-- big-endian encoding round-trips for every 64-bit value -/
theorem c18_u64be_roundtrip (n : Nat) (h : n < 18446744073709551616) : u64beDecode (u64be n) = some n := by
  simp only [u64be, u64beDecode, Option.some.injEq]
  omega

/-- … hence the id encoding is injective on the whole uint64 domain (incl. 0 and 2^64−1) -/
theorem c18_u64be_inj (a b : Nat) (ha : a < 18446744073709551616) (hb : b < 18446744073709551616)
    (h : u64be a = u64be b) : a = b := by
  have h1 := c18_u64be_roundtrip a ha
  have h2 := c18_u64be_roundtrip b hb
  rw [h] at h1
  rw [h1] at h2
  exact Option.some.inj h2

theorem u64be_length (n : Nat) : (u64be n).length = 8 := by simp [u64be]

/-- single-id keys (purchase orders, both queues, registrations, storage limits) are injective -/
theorem c18_idKey_inj (p a b : Nat) (ha : a < 18446744073709551616) (hb : b < 18446744073709551616)
    (h : idKey p a = idKey p b) : a = b := by
  simp only [idKey, List.cons.injEq, true_and] at h
  exact c18_u64be_inj a b ha hb h

/-- record keys (registration id, height / timestamp id) are injective as pairs -/
theorem c18_id2Key_inj (p i h i' h' : Nat)
    (h1 : i < 18446744073709551616) (h2 : h < 18446744073709551616)
    (h3 : i' < 18446744073709551616) (h4 : h' < 18446744073709551616)
    (e : id2Key p i h = id2Key p i' h') : i = i' ∧ h = h' := by
  simp only [id2Key, List.cons.injEq, true_and] at e
  have hl : (u64be i).length = (u64be i').length := by simp [u64be_length]
  have := List.append_inj e hl
  exact ⟨c18_u64be_inj i i' h1 h3 this.1, c18_u64be_inj h h' h2 h4 this.2⟩

/-- address-keyed sections (locked, spent, whitelist) are injective -/
theorem c18_addrKey_inj (p : Nat) (a b : Bytes) (h : addrKey p a = addrKey p b) : a = b := by
  simpa [addrKey] using h

/-- keys of different sections differ, and no key of one section is matched by the scan prefix of another -/
theorem c18_sections_disjoint (p q : Nat) (hpq : p ≠ q) (x y : Bytes) : p :: x ≠ q :: y := by
  intro h; exact hpq (List.cons.inj h).1

theorem c18_scan_disjoint (p q : Nat) (hpq : p ≠ q) (y : Bytes) : isPrefix [p] (q :: y) = false := by
  simp [isPrefix, Ne.symm hpq]

/-- a per-registration record scan (`prefix ‖ id`) matches exactly the records of that registration -/
theorem c18_record_scan_exact (p i i' h : Nat)
    (h1 : i < 18446744073709551616) (h3 : i' < 18446744073709551616) :
    isPrefix (idKey p i) (id2Key p i' h) = true ↔ i = i' := by
  simp only [isPrefix, idKey, id2Key, List.length_cons, u64be_length, decide_eq_true_eq]
  constructor
  · intro e
    have : (p :: (u64be i' ++ u64be h)).take 9 = p :: u64be i' := by
      simp [List.take, u64be]
    rw [this] at e
    simp only [List.cons.injEq, true_and] at e
    exact (c18_u64be_inj i' i h3 h1 e).symm
  · intro e; subst e
    simp [List.take, u64be]

/-- the section prefixes actually used by each module are pairwise distinct (regenerated table) -/
theorem c18_prefixes_distinct :
    ∀ m ∈ ["enterprise", "wrkchain", "beacon", "stream"],
      ((Facts.storePrefixes.filter (fun e => e.1 = m)).map (·.2.2)).Nodup := by
  decide

/-- every generated prefix is a single byte -/
theorem c18_prefixes_are_bytes : Facts.storePrefixes.all (fun e => e.2.2 < 256) = true := by decide

/-- store iteration order on ids is numeric order: big-endian bytes compare like the numbers -/
theorem c18_u64be_order (a b : Nat) (ha : a < 18446744073709551616) (hb : b < 18446744073709551616) :
    lexLt (u64be a) (u64be b) = true ↔ a < b := by
  have wa : ∀ x ∈ u64be a, x < 256 := by
    intro x hx; simp only [u64be, List.mem_cons, List.not_mem_nil, or_false] at hx; omega
  have wb : ∀ x ∈ u64be b, x < 256 := by
    intro x hx; simp only [u64be, List.mem_cons, List.not_mem_nil, or_false] at hx; omega
  rw [lexLt_iff_beVal _ _ (by simp [u64be]) wa wb, beVal_u64be a ha, beVal_u64be b hb]

/-- listing records of one registration (ids share the prefix) returns them in ascending height order -/
theorem c18_record_order (p i h h' : Nat) (hh : h < 18446744073709551616) (hh' : h' < 18446744073709551616) :
    lexLt (id2Key p i h) (id2Key p i h') = true ↔ h < h' := by
  have key : ∀ (pre : Bytes) (x y : Bytes), lexLt (pre ++ x) (pre ++ y) = lexLt x y := by
    intro pre x y
    induction pre with
    | nil => rfl
    | cons c cs ih => simp [lexLt_cons, ih]
  have : id2Key p i h = (p :: u64be i) ++ u64be h := by simp [id2Key]
  rw [this, show id2Key p i h' = (p :: u64be i) ++ u64be h' by simp [id2Key], key]
  exact c18_u64be_order h h' hh hh'

/-! streams: length-prefixed receiver then sender -/

theorem c18_streamKey_shape (p : Nat) (r s : Bytes) (hr : 0 < r.length) (hr' : r.length ≤ 255)
    (hs : 0 < s.length) (hs' : s.length ≤ 255) :
    streamKey p r s = some (p :: r.length :: (r ++ s.length :: s)) := by
  simp only [streamKey, recvKey, lengthPrefix]
  have h1 : ¬ r.length = 0 := by omega
  have h2 : ¬ r.length > 255 := by omega
  have h3 : ¬ s.length = 0 := by omega
  have h4 : ¬ s.length > 255 := by omega
  simp [h1, h2, h3, h4]

/-- a stream listed from the store is reported with exactly the receiver and sender it was created with,
for every address length from 1 to 255 -/
theorem c18_stream_key_roundtrip (p : Nat) (r s : Bytes) (hr : 0 < r.length) (hr' : r.length ≤ 255)
    (hs : 0 < s.length) (hs' : s.length ≤ 255) :
    (streamKey p r s).bind parseStreamKey = some (r, s) := by
  rw [c18_streamKey_shape p r s hr hr' hs hs']
  exact parse_shape p r s

/-- stream keys are injective in (receiver, sender) -/
theorem c18_stream_key_inj (p : Nat) (r s r' s' : Bytes)
    (hr : 0 < r.length) (hr' : r.length ≤ 255) (hs : 0 < s.length) (hs' : s.length ≤ 255)
    (hr2 : 0 < r'.length) (hr2' : r'.length ≤ 255) (hs2 : 0 < s'.length) (hs2' : s'.length ≤ 255)
    (e : streamKey p r s = streamKey p r' s') : r = r' ∧ s = s' := by
  have h1 := c18_stream_key_roundtrip p r s hr hr' hs hs'
  have h2 := c18_stream_key_roundtrip p r' s' hr2 hr2' hs2 hs2'
  rw [e, h2] at h1
  have := Option.some.inj h1
  exact ⟨(Prod.mk.inj this).1.symm, (Prod.mk.inj this).2.symm⟩

/-- listing the streams of one receiver matches exactly that receiver's streams, also for receivers of
different lengths that share a byte prefix -/
theorem c18_receiver_scan_exact (p : Nat) (r r' s : Bytes)
    (hr : 0 < r.length) (hr' : r.length ≤ 255) (hr2 : 0 < r'.length) (hr2' : r'.length ≤ 255)
    (hs : 0 < s.length) (hs' : s.length ≤ 255) :
    (do let pre ← recvKey p r; let k ← streamKey p r' s; pure (isPrefix pre k)) = some true ↔ r = r' := by
  rw [c18_streamKey_shape p r' s hr2 hr2' hs hs']
  have h1 : ¬ r.length = 0 := by omega
  have h2 : ¬ r.length > 255 := by omega
  simp only [recvKey, lengthPrefix, h1, h2, if_false, Option.map_some, Option.bind_eq_bind, Option.bind_some,
    Option.pure_def, Option.some.injEq, isPrefix, decide_eq_true_eq, List.length_cons]
  constructor
  · intro e
    rw [show r.length + 1 + 1 = (r.length + 1) + 1 by omega, List.take_succ_cons, List.take_succ_cons] at e
    simp only [List.cons.injEq, true_and] at e
    obtain ⟨hl, ht⟩ := e
    rw [← hl, List.take_append_of_le_length (by omega)] at ht
    rw [List.take_of_length_le (by omega)] at ht
    exact ht.symm
  · intro e; subst e
    rw [show r.length + 1 + 1 = (r.length + 1) + 1 by omega, List.take_succ_cons, List.take_succ_cons]
    simp

/-- over-long addresses are rejected by the builder (panic in `MustLengthPrefix`) -/
theorem c18_stream_key_rejects_long (p : Nat) (r s : Bytes) (h : 255 < r.length) : streamKey p r s = none := by
  have h1 : ¬ r.length = 0 := by omega
  simp [streamKey, recvKey, lengthPrefix, h1, h]

-- non-vacuity: concrete keys
example : u64be 18446744073709551615 = [255,255,255,255,255,255,255,255] := by decide
example : (streamKey 17 [1,2,3] [1,2]).bind parseStreamKey = some ([1,2,3],[1,2]) := by decide
example : id2Key 2 0 18446744073709551615 ≠ id2Key 2 1 0 := by decide

end C18
end Mainchain
