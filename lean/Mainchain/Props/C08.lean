import Mainchain.Lemmas.RegistryStable
/-
C08 — In-state retention keeps exactly the newest records within the bought limit.

Reading (DESIGN.md §8): pruned records cannot come back, so "exactly the most recent
min(total, limit)" is the dynamic statement: the retained set is always the newest `n` records,
`n ≤ limit`, each accepted record makes `n' = min(n+1, limit)` by pruning exactly the oldest one
when full, purchases leave `n` unchanged.
-/
namespace Mainchain
namespace C08
open AL

/-- BEACON: in every state of every run the retained timestamps of a beacon are exactly the
contiguous newest ids `first … last`, their number is the reported `NumInState`, it never exceeds
the in-state limit, and the reported counters are what can actually be queried. -/
theorem c08_bcn_retained_is_newest (g : GenCfg) (hg : GenRegValid g) (s : State) (hs : FineReach g RegQ s)
    (id : Nat) (m : RegMeta) (hm : find? s.bcn.regs id = some m) :
    (∀ k, (find? s.bcn.recs (id, k)).isSome ↔ (0 < m.num ∧ m.lowest ≤ k ∧ k ≤ m.last)) ∧
    (0 < m.num → m.lowest + m.num = m.last + 1) ∧
    (m.num = 0 → m.lowest = 0 ∧ m.last = 0) ∧
    m.num ≤ (s.bcn.limitOf id).1 := by
  have hbi := bcnInv_reachable g hg s (hs.weaken (fun _ h => h.2))
  exact ⟨fun k => hbi.cnt.present id m k hm, fun h => (hbi.cnt.range id m hm h).2,
    hbi.cnt.empty id m hm, hbi.cnt.withinLimit id m hm⟩

/-- BEACON: an accepted timestamp prunes exactly the oldest retained one, and only when the limit is
reached: `n' = min (n + 1) limit`. -/
theorem c08_bcn_prune_one_at_a_time (g : GenCfg) (hg : GenRegValid g) (s : State) (hs : FineReach g RegQ s)
    (hq : RegQ s) (now wall id key : Nat) (rc : Rec) (o : AddrTok) (b' : RegState) (k : Nat)
    (h : s.bcn.record now wall id key rc o = .ok (b', k)) :
    ∃ m m', find? s.bcn.regs id = some m ∧ find? b'.regs id = some m' ∧
      m'.num = min (m.num + 1) (s.bcn.limitOf id).1 ∧
      (m.num = (s.bcn.limitOf id).1 → find? b'.recs (id, m.lowest) = none ∧ m'.lowest = m.lowest + 1) ∧
      (m.num < (s.bcn.limitOf id).1 → ∀ k', (id, k') ≠ (id, k) → find? b'.recs (id, k') = find? s.bcn.recs (id, k')) := by
  have hbi := bcnInv_reachable g hg s (hs.weaken (fun _ h => h.2))
  obtain ⟨m, oa, hm, _, _, hk, _, hshape⟩ := bcn_record_shape s.bcn now wall id key rc o b' k hbi hq.2 h
  have hid : m.id = id := (hbi.reg.idsBelowNext id m hm).1
  subst hid
  have hnd := nodup_of_sorted _ (sorted_insertRec s.bcn.recs (m.id, m.last + 1)
    ({ key := m.last + 1, h0 := rc.h0, subTime := if rc.subTime = 0 then wall else rc.subTime } : Rec) hbi.reg.sortedRecs)
  rcases hshape with ⟨hfull, hpos, rfl⟩ | ⟨hroom, rfl⟩
  · refine ⟨m, _, hm, find_insert_eq _ _ _, ?_, ?_, ?_⟩
    · simp only; omega
    · intro _; exact ⟨find_erase_eq _ _ hnd, rfl⟩
    · intro hlt; omega
  · refine ⟨m, _, hm, find_insert_eq _ _ _, ?_, ?_, ?_⟩
    · simp only; omega
    · intro hfull; omega
    · intro _ k' hne
      subst hk
      exact find_insertRec_ne _ _ _ _ (Ne.symm hne)

/-- WRKChain: in every state of every run the retained heights are strictly increasing in store
order, `NumBlocks` is their number, `LowestHeight` is the smallest retained height (0 when none),
every retained height is at most `Lastblock`, and the number never exceeds the in-state limit. -/
theorem c08_wrk_counters_match_store (g : GenCfg) (hg : GenRegValid g) (s : State) (hs : FineReach g RegQ s)
    (id : Nat) (m : RegMeta) (hm : find? s.wrk.regs id = some m) :
    (keysOf s.wrk.recs id).Pairwise (· < ·) ∧
    m.num = (keysOf s.wrk.recs id).length ∧
    m.lowest = (keysOf s.wrk.recs id).head?.getD 0 ∧
    (∀ k ∈ keysOf s.wrk.recs id, 1 ≤ k ∧ k ≤ m.last) ∧
    m.num ≤ (s.wrk.limitOf id).1 := by
  have hwi := wrkInv_reachable g hg s (hs.weaken (fun _ h => h.1))
  exact ⟨hwi.cnt.sorted id, hwi.cnt.num id m hm, hwi.cnt.lowest id m hm, keys_le_last s.wrk hwi.reg id m hm,
    hwi.cnt.withinLimit id m hm⟩

/-- WRKChain: an accepted block record appends the new height and, when the limit is reached, drops
exactly the oldest retained height: the retained list is always a suffix of the accepted history. -/
theorem c08_wrk_prune_one_at_a_time (g : GenCfg) (hg : GenRegValid g) (s : State) (hs : FineReach g RegQ s)
    (hq : RegQ s) (now wall id key : Nat) (rc : Rec) (o : AddrTok) (w' : RegState) (k : Nat)
    (h : s.wrk.record now wall id key rc o = .ok (w', k)) :
    ∃ m, find? s.wrk.regs id = some m ∧
      ((m.num = (s.wrk.limitOf id).1 ∧ keysOf w'.recs id = (keysOf s.wrk.recs id).tail ++ [key]) ∨
       (m.num < (s.wrk.limitOf id).1 ∧ keysOf w'.recs id = keysOf s.wrk.recs id ++ [key])) := by
  have hwi := wrkInv_reachable g hg s (hs.weaken (fun _ h => h.1))
  obtain ⟨m, oa, hm, _, _, hk, hgt, hshape⟩ := wrk_record_shape s.wrk now wall id key rc o w' k hwi hq.1 h
  have hid : m.id = id := (hwi.reg.idsBelowNext id m hm).1
  subst hid
  rcases hshape with ⟨hfull, hlow, rfl⟩ | ⟨hroom, rfl⟩
  · exact ⟨m, hm, Or.inl ⟨hfull, (wrkPrune_counters s.wrk m m.id now key rc hwi.reg hwi.cnt hm hgt hlow).2⟩⟩
  · refine ⟨m, hm, Or.inr ⟨by omega, ?_⟩⟩
    have := keysOf_insertRec_fresh s.wrk.recs m.id key (wrkRec rc now key) m.id hwi.reg.sortedRecs
      (fun k' hk' => by have := (keys_le_last s.wrk hwi.reg _ m hm k' hk').2; omega)
    simp only [if_true] at this
    exact this

/-- The limit starts at the default in force at registration. -/
theorem c08_limit_starts_at_default (s : RegState) (now : Nat) (mk nm gn ty : String) (o : AddrTok)
    (s' : RegState) (id : Nat) (h : s.register now mk nm gn ty o = .ok (s', id)) :
    find? s'.limits id = some s.params.defLimit := by
  simp only [RegState.register, bind_eq_ok, pure_eq_ok, Prod.mk.injEq] at h
  obtain ⟨oa, _, _, _, _, _, _, _, rfl, rfl⟩ := h
  exact find_insert_eq _ _ _

/-- reported remaining purchasable capacity (message response and, after the `fix:`, the *Storage
queries) is `max(0, maximum − limit)` -/
theorem c08_remaining_capacity (s : RegState) (id l : Nat) (h : find? s.limits id = some l) :
    s.maxPurchasable id = s.params.maxLimit - l := by
  simp only [RegState.maxPurchasable, RegState.limitOf, h]
  by_cases h1 : l ≥ s.params.maxLimit
  · simp [h1]
  · simp [h1]

/-- A successful purchase is made by the registered owner, raises the limit by exactly the purchased
number, and the new limit does not exceed the maximum in force; the reported remaining capacity is
`max(0, maximum − limit)`. -/
theorem c08_purchase_raises_by_exactly_n (g : GenCfg) (hg : GenRegValid g) (s : State) (hs : FineReach g RegQ s)
    (k : RegKind) (id n : Nat) (o : AddrTok) (r' : RegState) (can : Nat) (hn : n < two64)
    (h : (s.reg k).purchase id n o = .ok (r', can)) :
    (∃ oa m, o.decode = some oa ∧ find? (s.reg k).regs id = some m ∧ m.owner.decode = some oa) ∧
    (r'.limitOf id).1 = ((s.reg k).limitOf id).1 + n ∧
    (r'.limitOf id).1 ≤ (s.reg k).params.maxLimit ∧
    (∀ id', id' ≠ id → r'.limitOf id' = (s.reg k).limitOf id') ∧
    can = (s.reg k).params.maxLimit - (r'.limitOf id).1 := by
  have hri : RegInv (s.reg k) := by
    cases k
    · exact (wrkInv_reachable g hg s (hs.weaken (fun _ h => h.1))).reg
    · exact (bcnInv_reachable g hg s (hs.weaken (fun _ h => h.2))).reg
  obtain ⟨_, _, _, _, hpar, _, hown, ⟨after, hlim, _, hmax, hexact⟩, _⟩ := regInv_purchase (s.reg k) id n o r' can hri h
  have hafter := hexact hn
  have hl : (r'.limitOf id).1 = after := by simp [RegState.limitOf, hlim]
  refine ⟨hown, by rw [hl, hafter], by rw [hl]; exact hmax, ?_, ?_⟩
  · intro id' hne
    simp [RegState.limitOf, hlim, find_insert_ne _ _ _ _ (Ne.symm hne)]
  · have hcan : can = r'.maxPurchasable id := by
      simp only [RegState.purchase, bind_eq_ok, pure_eq_ok, Prod.mk.injEq] at h
      obtain ⟨_, _, _, _, _, _, _, _, rfl, rfl⟩ := h
      rfl
    have hf : find? r'.limits id = some after := by rw [hlim]; exact find_insert_eq _ _ _
    rw [hcan, c08_remaining_capacity r' id after hf, hl, hpar]

/-- The limit of a registration changes only by a storage purchase: every other elementary step of
the application (any message of any module, nested or not, ante effects, block hooks) leaves every
limit untouched, and a purchase never lowers a limit. -/
theorem c08_limit_changes_only_by_purchase (g : GenCfg) (hg : GenRegValid g) (s s' : State) (hs : FineReach g RegQ s)
    (hstep : FineStep s s') (k : RegKind) (id : Nat) :
    ((s'.reg k).limitOf id = (s.reg k).limitOf id) ∨
    (∃ n o can, (s.reg k).purchase id n o = .ok (s'.reg k, can) ∧ ((s.reg k).limitOf id).1 ≤ ((s'.reg k).limitOf id).1) ∨
    (find? (s.reg k).regs id = none ∧ ∃ now mk nm gn ty o, (s.reg k).register now mk nm gn ty o = .ok (s'.reg k, id)) := by
  have hri : RegInv (s.reg k) := by
    cases k
    · exact (wrkInv_reachable g hg s (hs.weaken (fun _ h => h.1))).reg
    · exact (bcnInv_reachable g hg s (hs.weaken (fun _ h => h.2))).reg
  rcases fineStep_reg k s s' hstep with he | ⟨wall, hop⟩
  · left; rw [he]
  · cases hop with
    | register mk nm gn ty o id' h =>
      have h' := h
      simp only [RegState.register, bind_eq_ok, pure_eq_ok, Prod.mk.injEq] at h
      obtain ⟨oa, _, _, _, _, _, _, _, hs', rfl⟩ := h
      by_cases hid : id = (s.reg k).nextId
      · right; right
        subst hid
        refine ⟨?_, _, mk, nm, gn, ty, o, h'⟩
        cases hf : find? (s.reg k).regs (s.reg k).nextId with
        | none => rfl
        | some m => have := (hri.idsBelowNext _ _ hf).2; omega
      · left; rw [← hs']
        simp [RegState.limitOf, RegState.registered, find_insert_ne _ _ _ _ (Ne.symm hid)]
    | record id' key rc o k' h =>
      left
      -- records never touch the limits
      simp only [RegState.record, bind_eq_ok, pure_eq_ok] at h
      obtain ⟨oa, _, h⟩ := h
      split at h
      · simp only [bind_eq_ok, pure_eq_ok, Prod.mk.injEq] at h
        obtain ⟨_, _, _, _, m, _, _, _, hs', _⟩ := h
        rw [← hs']; simp [RegState.limitOf, recordWrk_limits]
      · simp only [bind_eq_ok, pure_eq_ok] at h
        obtain ⟨_, _, m, _, hs'⟩ := h
        have : (s'.reg k) = ((s.reg k).recordBcn m rc.h0 (if rc.subTime = 0 then wall else rc.subTime)).1 := by rw [hs']
        rw [this]; simp [RegState.limitOf, recordBcn_limits]
    | purchase id' n o can h =>
      obtain ⟨_, _, _, _, _, _, _, ⟨after, hlim, hmono, _, _⟩, _⟩ := regInv_purchase (s.reg k) id' n o (s'.reg k) can hri h
      by_cases hid : id = id'
      · subst hid
        right; left
        exact ⟨n, o, can, h, by simp [RegState.limitOf, hlim] at hmono ⊢; exact hmono⟩
      · left; simp [RegState.limitOf, hlim, find_insert_ne _ _ _ _ (Ne.symm hid)]
    | setParams p h =>
      left
      obtain ⟨_, _, _, hlims, _⟩ := regInv_setParams (s.reg k) p (s'.reg k) hri h
      simp [RegState.limitOf, hlims]

/-- the compile-time default limit used for a registration without a limit entry is the source's -/
theorem c08_limits_from_source :
    AL.find? Facts.limits "wrkchain.DefaultStorageLimit" = some constDefaultStorageLimit ∧
    AL.find? Facts.limits "beacon.DefaultStorageLimit" = some constDefaultStorageLimit := by decide

end C08
end Mainchain
