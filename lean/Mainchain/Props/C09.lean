import Mainchain.Lemmas.RegistryStable
/-
C09 — Registrations get unique sequential IDs and an immutable sole-writer owner.
-/
namespace Mainchain
namespace C09
open AL

/-- Each successful registration receives the next unused identifier (the genesis starting id for
the first one), the counter advances by one, the id was never used before, and exactly the
submitted moniker, name, type/genesis hash and the signer (canonical spelling) are stored. -/
theorem c09_ids_sequential_and_fields_verbatim (g : GenCfg) (hg : GenRegValid g) (s : State)
    (hs : FineReach g RegQ s) (hq : RegQ s) (k : RegKind) (now : Nat) (mk nm gn ty : String) (o : AddrTok)
    (r' : RegState) (id : Nat) (h : (s.reg k).register now mk nm gn ty o = .ok (r', id)) :
    id = (s.reg k).nextId ∧ r'.nextId = id + 1 ∧ find? (s.reg k).regs id = none ∧
    ∃ oa m, o.decode = some oa ∧ find? r'.regs id = some m ∧ m.id = id ∧ m.owner = AddrTok.canon oa ∧
      m.moniker = mk ∧ m.name = nm ∧ m.regTime = now ∧
      (match (s.reg k).kind with | .wrk => m.genesis = gn ∧ m.type = ty | .bcn => True) := by
  have hri : RegInv (s.reg k) ∧ RegBounded (s.reg k) := by
    cases k
    · exact ⟨(wrkInv_reachable g hg s (hs.weaken (fun _ h => h.1))).reg, hq.1⟩
    · exact ⟨(bcnInv_reachable g hg s (hs.weaken (fun _ h => h.2))).reg, hq.2⟩
  obtain ⟨_, hid, hfresh, _, hnext⟩ := regInv_register (s.reg k) now mk nm gn ty o r' id hri.1 hri.2 h
  refine ⟨hid, by rw [hnext, hid], hfresh, ?_⟩
  simp only [RegState.register, bind_eq_ok, pure_eq_ok, Prod.mk.injEq, decodeM_eq_ok] at h
  obtain ⟨oa, hoa, _, _, _, _, _, _, rfl, rfl⟩ := h
  refine ⟨oa, _, hoa, find_insert_eq _ _ _, rfl, rfl, rfl, rfl, rfl, ?_⟩
  cases (s.reg k).kind <;> simp

/-- the first registration of a chain receives the genesis starting id -/
theorem c09_first_id_is_genesis_start (g : GenCfg) :
    (initState g).wrk.nextId = g.wrkStart ∧ (initState g).bcn.nextId = g.bcnStart := ⟨rfl, rfl⟩

/-- Once registered, the id, owner, moniker, name, type/genesis hash and registration time of a
WRKChain/BEACON never change, and the registration never disappears: in every later state of
every run the same values are returned. -/
theorem c09_registration_frozen (g : GenCfg) (hg : GenRegValid g) (s s' : State)
    (hs : FineReach g RegQ s) (hp : FinePathQ RegQ s s') (k : RegKind) (id : Nat) (m : RegMeta)
    (hm : find? (s.reg k).regs id = some m) :
    ∃ m', find? (s'.reg k).regs id = some m' ∧ m'.owner = m.owner ∧ m'.moniker = m.moniker ∧ m'.name = m.name ∧
      m'.genesis = m.genesis ∧ m'.type = m.type ∧ m'.regTime = m.regTime ∧ m'.id = m.id := by
  obtain ⟨hw, hb⟩ := registries_stable g hg s s' hs hp
  cases k with
  | wrk => obtain ⟨m', h1, _, h2⟩ := hw.1 id m hm; exact ⟨m', h1, h2⟩
  | bcn => obtain ⟨m', h1, _, h2⟩ := hb.1 id m hm; exact ⟨m', h1, h2⟩

/-- ids are never reused: the id counter never decreases, so an id handed out once is never handed
out again -/
theorem c09_ids_never_reused (g : GenCfg) (hg : GenRegValid g) (s : State) (hs : FineReach g RegQ s)
    (k : RegKind) (id : Nat) (m : RegMeta) (hm : find? (s.reg k).regs id = some m) : id < (s.reg k).nextId := by
  cases k
  · exact ((wrkInv_reachable g hg s (hs.weaken (fun _ h => h.1))).reg.idsBelowNext id m hm).2
  · exact ((bcnInv_reachable g hg s (hs.weaken (fun _ h => h.2))).reg.idsBelowNext id m hm).2

/-- Only the registered owner can record to a registration or purchase storage for it: a successful
record or purchase names (as `Owner`, the field that must sign) an address that decodes to the
stored owner. -/
theorem c09_only_owner_writes (s : RegState) (now wall id key n : Nat) (rc : Rec) (o : AddrTok) :
    (∀ s' k, s.record now wall id key rc o = .ok (s', k) →
        ∃ oa m, o.decode = some oa ∧ find? s.regs id = some m ∧ m.owner.decode = some oa) ∧
    (∀ s' can, s.purchase id n o = .ok (s', can) →
        ∃ oa m, o.decode = some oa ∧ find? s.regs id = some m ∧ m.owner.decode = some oa) := by
  constructor
  · intro s' k h
    simp only [RegState.record, bind_eq_ok, decodeM_eq_ok] at h
    obtain ⟨oa, hoa, h⟩ := h
    split at h
    · simp only [bind_eq_ok] at h
      obtain ⟨_, _, _, _, m, hm, _⟩ := h
      exact ⟨oa, m, hoa, ownedBy_ok _ _ _ _ hm⟩
    · simp only [bind_eq_ok] at h
      obtain ⟨_, _, m, hm, _⟩ := h
      exact ⟨oa, m, hoa, ownedBy_ok _ _ _ _ hm⟩
  · intro s' can h
    simp only [RegState.purchase, bind_eq_ok, decodeM_eq_ok] at h
    obtain ⟨oa, hoa, _, _, m, hm, _⟩ := h
    exact ⟨oa, m, hoa, ownedBy_ok _ _ _ _ hm⟩

/-- attempts against unknown identifiers, or by anyone but the owner, are rejected (an error, hence
no effect: a failing message yields no state) -/
theorem c09_unknown_or_foreign_rejected (s : RegState) (now wall id key n : Nat) (rc : Rec) (o : AddrTok)
    (h : ∀ oa m, o.decode = some oa → find? s.regs id = some m → m.owner.decode ≠ some oa) :
    (∀ s' k, s.record now wall id key rc o ≠ .ok (s', k)) ∧ (∀ s' can, s.purchase id n o ≠ .ok (s', can)) := by
  obtain ⟨h1, h2⟩ := c09_only_owner_writes s now wall id key n rc o
  constructor
  · intro s' k hk
    obtain ⟨oa, m, a, b, c⟩ := h1 s' k hk
    exact h oa m a b c
  · intro s' can hk
    obtain ⟨oa, m, a, b, c⟩ := h2 s' can hk
    exact h oa m a b c

/-- the byte limits of moniker, name and genesis hash in the model are the ones the source compares with -/
theorem c09_limits_from_source :
    ["wrkchain.msgs.Moniker.>", "beacon.msgs.Moniker.>"].all (fun k => decide (AL.find? Facts.limits k = some maxMonikerLen)) = true ∧
    ["wrkchain.msgs.Name.>", "beacon.msgs.Name.>"].all (fun k => decide (AL.find? Facts.limits k = some maxNameLen)) = true ∧
    AL.find? Facts.limits "wrkchain.msgs.GenesisHash.>" = some maxHashLen ∧
    -- where the message servers repeat a `ValidateBasic` bound literally it is the same number
    ["wrkchain.msg_server.Moniker.>", "beacon.msg_server.Moniker.>"].all
      (fun k => decide (AL.find? Facts.limits k = none ∨ AL.find? Facts.limits k = some maxMonikerLen)) = true ∧
    ["wrkchain.msg_server.Name.>", "beacon.msg_server.Name.>"].all
      (fun k => decide (AL.find? Facts.limits k = none ∨ AL.find? Facts.limits k = some maxNameLen)) = true := by decide

end C09
end Mainchain
