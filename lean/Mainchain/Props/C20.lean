import Mainchain.Lemmas.SortKV
import Mainchain.Lemmas.PaginateRev
import Mainchain.Lemmas.EntBook
import Mainchain.Model.Script
import Mainchain.Props.C18
/-
C20 — List queries are complete, duplicate-free, consistent with point queries.

`Paginate.filtered` is the transcription of the SDK's `FilteredPaginate` / `GenericFilteredPaginate`
(one control flow; `Paginate` is its all-hits instance); the list queries of the four modules are
`Query.entPos`, `Query.regList`, `Query.strStreams`, `Query.strBySender`, `Query.strByReceiver`.
The tie to the code is the query engine of the harness (every query through ABCI Query on the gRPC
route of the real app, generated paging walks) compared with these functions on every run.
-/
namespace Mainchain
namespace C20
open AL Keys Paginate

variable {α : Type}

/-- **Paging by key is complete and duplicate-free.**  For any store section given as a map with
pairwise distinct, non-empty keys, any filter and any page limit `1 ≤ L < 2^64`: a first request without
key followed by requests carrying the previous `next_key`, until `next_key` is empty, returns — as the
concatenation of the pages — a list that (a) is exactly the matching entries in ascending key order and
(b) is a permutation of the matching entries of the map: every stored item that matches, exactly once,
and nothing else. -/
theorem c20_pages_partition_by_key (kvs : List (Bytes × α)) (hd : (kvs.map (·.1)).Nodup) (hne : ∀ e ∈ kvs, e.1 ≠ [])
    (h : Bytes → α → Bool) (L : Nat) (hL : 1 ≤ L) (hL' : L < two64) :
    ∃ pages, walkKeys (sortKV kvs) (fun k v => some (h k v)) L ((sortKV kvs).length + 2) [] = some pages ∧
      pages = (hitsOf h (sortKV kvs)).map (·.2) ∧
      pages.Perm ((kvs.filter (fun e => h e.1 e.2)).map (·.2)) := by
  obtain ⟨hsec, hperm⟩ := sortKV_section kvs hd hne
  refine ⟨_, walkKeys_complete (sortKV kvs) h L hsec hL hL', rfl, ?_⟩
  exact (hperm.filter _).map _

/-- **Paging backward by key (`reverse = true`) is complete and duplicate-free** too: the concatenation of the
pages is exactly the matching entries in descending key order — a permutation of the matching entries of the
map.  (A reverse request carrying the key of the top entry is an error of the SDK helper; a walk never sends
one: `Paginate.key_page_rev_top`.) -/
theorem c20_pages_partition_by_key_reverse (kvs : List (Bytes × α)) (hd : (kvs.map (·.1)).Nodup) (hne : ∀ e ∈ kvs, e.1 ≠ [])
    (h : Bytes → α → Bool) (L : Nat) (hL : 1 ≤ L) (hL' : L < two64) :
    ∃ pages, walkKeysRev (sortKV kvs) (fun k v => some (h k v)) L ((sortKV kvs).length + 2) [] = some pages ∧
      pages = ((hitsOf h (sortKV kvs)).map (·.2)).reverse ∧
      pages.Perm ((kvs.filter (fun e => h e.1 e.2)).map (·.2)) := by
  obtain ⟨hsec, hperm⟩ := sortKV_section kvs hd hne
  have hrev : (hitsOf h (sortKV kvs).reverse).map (·.2) = ((hitsOf h (sortKV kvs)).map (·.2)).reverse := by
    unfold hitsOf; rw [List.filter_reverse, List.map_reverse]
  refine ⟨_, walkKeysRev_complete (sortKV kvs) h L hsec hL hL', hrev, ?_⟩
  rw [hrev]
  exact (List.reverse_perm _).trans ((hperm.filter _).map _)

/-- **Paging by offset.**  The page at offset `o` with limit `L` is exactly the matching entries number
`o … o+L-1` in key order, so the pages at offsets `0, L, 2L, …` partition the matching entries. -/
theorem c20_pages_partition_by_offset (kvs : List (Bytes × α)) (h : Bytes → α → Bool) (o L : Nat) (hL : 1 ≤ L)
    (hfit : o + L < two64) :
    (filtered (sortKV kvs) { offset := o, limit := L } (fun k v => some (h k v))).map (·.items) =
      some ((((hitsOf h (sortKV kvs)).map (·.2)).drop o).take L) :=
  offset_page (sortKV kvs) h o L hL hfit

theorem drop_take_partition {β : Type} (l : List β) (L : Nat) (hL : 1 ≤ L) :
    ∀ n, ((List.range n).map (fun i => (l.drop (i * L)).take L)).flatten = l.take (n * L) := by
  intro n
  induction n with
  | zero => simp
  | succ n ih =>
    rw [List.range_succ, List.map_append, List.flatten_append, ih]
    simp only [List.map_cons, List.map_nil, List.flatten_cons, List.flatten_nil, List.append_nil]
    rw [Nat.succ_mul, List.take_add]

/-- a request with both a key and a non-zero offset is refused -/
theorem c20_key_and_offset_rejected (kvs : List (Bytes × α)) (req : Req) (hit : Bytes → α → Option Bool)
    (h1 : 0 < req.offset) (h2 : req.key ≠ []) : filtered kvs req hit = none := by
  simp [filtered, h1, h2]

/-! ### the purchase-order list -/

theorem poStore_keys (e : EntState) (hi : BookInv e) (hq : e.nextId < two64) :
    ((e.orders.map (fun x => (u64be x.1, x.2))).map (·.1)).Nodup ∧
    ∀ x ∈ e.orders.map (fun x => (u64be x.1, x.2)), x.1 ≠ [] := by
  constructor
  · rw [List.map_map]
    have hnd : (e.orders.map (·.1)).Nodup := hi.nodup
    have : (e.orders.map ((fun x : Bytes × PO => x.1) ∘ (fun x : Nat × PO => (u64be x.1, x.2)))) = (e.orders.map (·.1)).map u64be := by
      rw [List.map_map]; rfl
    rw [this]
    -- distinct ids below 2^64 have distinct big-endian encodings
    have hlt : ∀ a ∈ e.orders.map (·.1), a < 18446744073709551616 := by
      intro a ha
      obtain ⟨pa, hpa⟩ := find_some_of_mem e.orders a ha
      have h1 := hi.fresh a pa hpa
      unfold two64 at hq; omega
    unfold List.Nodup at hnd ⊢
    rw [List.pairwise_map]
    refine List.Pairwise.imp_of_mem ?_ hnd
    intro a b ha hb hab heq
    exact hab (C18.c18_u64be_inj a b (hlt a ha) (hlt b hb) heq)
  · intro x hx
    obtain ⟨y, _, rfl⟩ := List.mem_map.mp hx
    simp [u64be]

/-- **Purchase orders.**  Paging through `EnterpriseUndPurchaseOrders` by key with any status / purchaser
filter and any limit returns every stored order that matches the filter exactly once, in ascending id
order, and nothing else. -/
theorem c20_purchase_orders_walk (g : GenCfg) (s : State) (hr : FineReach g EntQ s) (hq : EntQ s)
    (status : Int) (purchaser : AddrTok) (L : Nat) (hL : 1 ≤ L) (hL' : L < two64) :
    let hit : Bytes → PO → Bool := fun _ po =>
      (status = 0 || decide ((po.status : Int) = status)) && (decide (purchaser = .empty) || Query.eqFold po.purchaser purchaser)
    ∃ pages, walkKeys (Query.poStore s.ent) (fun k v => some (hit k v)) L ((Query.poStore s.ent).length + 2) [] = some pages ∧
      pages.Perm ((s.ent.orders.map (·.2)).filter (fun po => hit [] po)) := by
  intro hit
  have hi := bookInv_reachable g s hr
  obtain ⟨h1, h2⟩ := poStore_keys s.ent hi (by unfold EntQ at hq; omega)
  obtain ⟨pages, hw, _, hp⟩ := c20_pages_partition_by_key _ h1 h2 hit L hL hL'
  refine ⟨pages, hw, ?_⟩
  refine hp.trans ?_
  rw [List.filter_map, List.map_map]
  simp only [List.filter_map, List.map_map]
  exact List.Perm.refl _

/-- **Consistency with the point query.**  Every stored order is what `EnterpriseUndPurchaseOrder(id)`
returns for its id (ids are never 0: the genesis starting id is validated to be positive). -/
theorem c20_listed_order_eq_point_query (g : GenCfg) (s : State) (hr : FineReach g EntQ s) (id : Nat) (po : PO)
    (hf : find? s.ent.orders id = some po) (h0 : id ≠ 0) : Query.entPo s.ent po.id = some po := by
  have hi := bookInv_reachable g s hr
  have := hi.idKey id po hf
  simp [Query.entPo, this, h0, hf]

/-- the same for registrations and streams -/
theorem c20_listed_registration_eq_point_query (r : RegState) (id : Nat) (m : RegMeta) (hf : find? r.regs id = some m)
    (h0 : id ≠ 0) : Query.regGet r id = some m := by
  simp [Query.regGet, h0, hf]

theorem c20_listed_stream_eq_point_query (st : StreamState) (ra sa : Addr) (x : Stream)
    (hf : find? st.streams (ra, sa) = some x) :
    Query.strGet st (AddrTok.canon ra) (AddrTok.canon sa) = some ((ra, sa), x) := by
  simp [Query.strGet, AddrTok.canon, AddrTok.decode, hf]

/-- **Queries never modify state.**  A QUERY (or DIGEST) line leaves the node exactly as it was: the query
servers of the model are functions of the committed state with no state result. -/
theorem c20_queries_do_not_modify_state (wall : Nat) (it : Script.Interp) (line k kind : String) (args : List String) :
    (Script.stepToks wall it line ("QUERY" :: k :: kind :: args)).1.node = it.node ∧
    (Script.stepToks wall it line ["DIGEST"]).1.node = it.node := by
  constructor
  · simp only [Script.stepToks]
    split
    · split <;> rfl
    · rfl
  · simp only [Script.stepToks]
    split <;> rfl

end C20
end Mainchain
