import Mainchain.Lemmas.SortKV
import Mainchain.Lemmas.PaginateRev
import Mainchain.Lemmas.PaginateMax
import Mainchain.Lemmas.EntBook
import Mainchain.Model.Script
import Mainchain.Props.C18
import Mainchain.Lemmas.RegistryReach
import Mainchain.Lemmas.StreamReach
/-
C20 — List queries are complete, duplicate-free, consistent with point queries.

`Paginate.filtered` is the transcription of the SDK's `FilteredPaginate` / `GenericFilteredPaginate`
(one control flow; `Paginate` is its all-hits instance); the list queries of the four modules are
`Query.entPos`, `Query.regList`, `Query.strStreams`, `Query.strBySender`, `Query.strByReceiver`.
The tie to the code is the query engine of the harness (every query through ABCI Query on the gRPC
route of the real app, generated paging walks) compared with these functions on every run.
-/
namespace Mainchain
namespace C20
open AL Keys Paginate

variable {α : Type}

/-- **Paging by key is complete and duplicate-free.**  For any store section given as a map with
pairwise distinct, non-empty keys, any filter and any page limit `1 ≤ L < 2^64 − 1`: a first request without
key followed by requests carrying the previous `next_key`, until `next_key` is empty, returns — as the
concatenation of the pages — a list that (a) is exactly the matching entries in ascending key order and
(b) is a permutation of the matching entries of the map: every stored item that matches, exactly once,
and nothing else. -/
theorem c20_pages_partition_by_key (kvs : List (Bytes × α)) (hd : (kvs.map (·.1)).Nodup) (hne : ∀ e ∈ kvs, e.1 ≠ [])
    (h : Bytes → α → Bool) (L : Nat) (hL : 1 ≤ L) (hL' : L + 1 < two64) :
    ∃ pages, walkKeys (sortKV kvs) (fun k v => some (h k v)) L ((sortKV kvs).length + 2) [] = some pages ∧
      pages = (hitsOf h (sortKV kvs)).map (·.2) ∧
      pages.Perm ((kvs.filter (fun e => h e.1 e.2)).map (·.2)) := by
  obtain ⟨hsec, hperm⟩ := sortKV_section kvs hd hne
  refine ⟨_, walkKeys_complete (sortKV kvs) h L hsec hL hL', rfl, ?_⟩
  exact (hperm.filter _).map _

/-- **Paging backward by key (`reverse = true`) is complete and duplicate-free** too: the concatenation of the
pages is exactly the matching entries in descending key order — a permutation of the matching entries of the
map.  (A reverse request carrying the key of the top entry is an error of the SDK helper; a walk never sends
one: `Paginate.key_page_rev_top`.) -/
theorem c20_pages_partition_by_key_reverse (kvs : List (Bytes × α)) (hd : (kvs.map (·.1)).Nodup) (hne : ∀ e ∈ kvs, e.1 ≠ [])
    (h : Bytes → α → Bool) (L : Nat) (hL : 1 ≤ L) (hL' : L + 1 < two64) :
    ∃ pages, walkKeysRev (sortKV kvs) (fun k v => some (h k v)) L ((sortKV kvs).length + 2) [] = some pages ∧
      pages = ((hitsOf h (sortKV kvs)).map (·.2)).reverse ∧
      pages.Perm ((kvs.filter (fun e => h e.1 e.2)).map (·.2)) := by
  obtain ⟨hsec, hperm⟩ := sortKV_section kvs hd hne
  have hrev : (hitsOf h (sortKV kvs).reverse).map (·.2) = ((hitsOf h (sortKV kvs)).map (·.2)).reverse := by
    unfold hitsOf; rw [List.filter_reverse, List.map_reverse]
  refine ⟨_, walkKeysRev_complete (sortKV kvs) h L hsec hL hL', hrev, ?_⟩
  rw [hrev]
  exact (List.reverse_perm _).trans ((hperm.filter _).map _)

/-- **…and at the largest page limit, `query.MaxLimit` = 2^64 − 1**, where the SDK's `end + 1` wraps (see the instance
below): the first page may be cut short after one entry, but following `next_key` still returns every matching entry exactly
once — so the walk is complete and duplicate-free for *every* page limit `1 ≤ L ≤ 2^64 − 1`. -/
theorem c20_pages_partition_by_key_max_limit (kvs : List (Bytes × α)) (hd : (kvs.map (·.1)).Nodup) (hne : ∀ e ∈ kvs, e.1 ≠ [])
    (h : Bytes → α → Bool) (hlen : kvs.length + 1 ≤ maxLimit) :
    ∃ pages, walkKeys (sortKV kvs) (fun k v => some (h k v)) maxLimit ((sortKV kvs).length + 2) [] = some pages ∧
      pages = (hitsOf h (sortKV kvs)).map (·.2) ∧
      pages.Perm ((kvs.filter (fun e => h e.1 e.2)).map (·.2)) := by
  obtain ⟨hsec, hperm⟩ := sortKV_section kvs hd hne
  have hl : (sortKV kvs).length + 1 ≤ maxLimit := by rw [hperm.length_eq]; exact hlen
  exact ⟨_, walkKeys_complete_max (sortKV kvs) h hsec hl, rfl, (hperm.filter _).map _⟩

/-- **Paging by offset.**  The page at offset `o` with limit `L` is exactly the matching entries number
`o … o+L-1` in key order, so the pages at offsets `0, L, 2L, …` partition the matching entries. -/
theorem c20_pages_partition_by_offset (kvs : List (Bytes × α)) (h : Bytes → α → Bool) (o L : Nat) (hL : 1 ≤ L)
    (hfit : o + L + 1 < two64) :
    (filtered (sortKV kvs) { offset := o, limit := L } (fun k v => some (h k v))).map (·.items) =
      some ((((hitsOf h (sortKV kvs)).map (·.2)).drop o).take L) :=
  offset_page (sortKV kvs) h o L hL hfit

theorem drop_take_partition {β : Type} (l : List β) (L : Nat) (hL : 1 ≤ L) :
    ∀ n, ((List.range n).map (fun i => (l.drop (i * L)).take L)).flatten = l.take (n * L) := by
  intro n
  induction n with
  | zero => simp
  | succ n ih =>
    rw [List.range_succ, List.map_append, List.flatten_append, ih]
    simp only [List.map_cons, List.map_nil, List.flatten_cons, List.flatten_nil, List.append_nil]
    rw [Nat.succ_mul, List.take_add]

/-- The one page size left out above, `limit = 2^64 − 1` (`query.MaxLimit`): the SDK computes `end + 1` in uint64, which
wraps to 0, so the first (offset) page stops after the first store entry it looks at unless that entry is a hit — it may
return nothing and a `next_key` although matching entries follow.  Following that `next_key` (a key request, which has no
such arithmetic) returns them all: nothing is lost or repeated over the walk, the first page is merely short.  Concrete
instance (the model transcribes the wrap: `addU64 end_ 1`; the real application behaves identically in the query engine). -/
example :
    filtered [([1], "a"), ([2], "b")] { limit := 18446744073709551615 } (fun k _ => some (decide (k = [2]))) =
      some { items := [], next := [1], total := 0 } ∧
    filtered [([1], "a"), ([2], "b")] { key := [1], limit := 18446744073709551615 } (fun k _ => some (decide (k = [2]))) =
      some { items := ["b"], next := [], total := 0 } := by
  constructor <;> rfl

/-- **Known finding (SDK pagination, reached through every list query): a *reverse* walk at `limit = 2^64 − 1` can fail.**
When the top entry of the section does not match the filter, the wrapped `end + 1` makes the first page return nothing and the
key of the top entry as `next_key`; a reverse request carrying the key of the top entry makes the SDK read `Key()` of an
exhausted iterator (`key_page_rev_top`): the query answers with an error and the matching entries below are never delivered.
Negation witness (replayed on the real application by `corpus/known/c20-reverse-walk-at-the-maximum-page-limit.script`);
forward walks are complete at every limit (`c20_pages_partition_by_key_max_limit`), reverse walks for `L < 2^64 − 1`. -/
theorem c20_reverse_walk_at_max_limit_fails :
    walkKeysRev [([1], "a"), ([2], "b")] (fun k _ => some (decide (k = [1]))) maxLimit 4 [] = none := by
  rfl

/-- a request with both a key and a non-zero offset is refused -/
theorem c20_key_and_offset_rejected (kvs : List (Bytes × α)) (req : Req) (hit : Bytes → α → Option Bool)
    (h1 : 0 < req.offset) (h2 : req.key ≠ []) : filtered kvs req hit = none := by
  simp [filtered, h1, h2]

/-! ### the purchase-order list -/

theorem poStore_keys (e : EntState) (hi : BookInv e) (hq : e.nextId < two64) :
    ((e.orders.map (fun x => (u64be x.1, x.2))).map (·.1)).Nodup ∧
    ∀ x ∈ e.orders.map (fun x => (u64be x.1, x.2)), x.1 ≠ [] := by
  constructor
  · rw [List.map_map]
    have hnd : (e.orders.map (·.1)).Nodup := hi.nodup
    have : (e.orders.map ((fun x : Bytes × PO => x.1) ∘ (fun x : Nat × PO => (u64be x.1, x.2)))) = (e.orders.map (·.1)).map u64be := by
      rw [List.map_map]; rfl
    rw [this]
    -- distinct ids below 2^64 have distinct big-endian encodings
    have hlt : ∀ a ∈ e.orders.map (·.1), a < 18446744073709551616 := by
      intro a ha
      obtain ⟨pa, hpa⟩ := find_some_of_mem e.orders a ha
      have h1 := hi.fresh a pa hpa
      unfold two64 at hq; omega
    unfold List.Nodup at hnd ⊢
    rw [List.pairwise_map]
    refine List.Pairwise.imp_of_mem ?_ hnd
    intro a b ha hb hab heq
    exact hab (C18.c18_u64be_inj a b (hlt a ha) (hlt b hb) heq)
  · intro x hx
    obtain ⟨y, _, rfl⟩ := List.mem_map.mp hx
    simp [u64be]

/-- **Purchase orders.**  Paging through `EnterpriseUndPurchaseOrders` by key with any status / purchaser
filter and any limit returns every stored order that matches the filter exactly once, in ascending id
order, and nothing else. -/
theorem c20_purchase_orders_walk (g : GenCfg) (s : State) (hr : FineReach g EntQ s) (hq : EntQ s)
    (status : Int) (purchaser : AddrTok) (L : Nat) (hL : 1 ≤ L) (hL' : L + 1 < two64) :
    let hit : Bytes → PO → Bool := fun _ po =>
      (status = 0 || decide ((po.status : Int) = status)) && (decide (purchaser = .empty) || Query.eqFold po.purchaser purchaser)
    ∃ pages, walkKeys (Query.poStore s.ent) (fun k v => some (hit k v)) L ((Query.poStore s.ent).length + 2) [] = some pages ∧
      pages.Perm ((s.ent.orders.map (·.2)).filter (fun po => hit [] po)) := by
  intro hit
  have hi := bookInv_reachable g s hr
  obtain ⟨h1, h2⟩ := poStore_keys s.ent hi (by unfold EntQ at hq; omega)
  obtain ⟨pages, hw, _, hp⟩ := c20_pages_partition_by_key _ h1 h2 hit L hL hL'
  refine ⟨pages, hw, ?_⟩
  refine hp.trans ?_
  rw [List.filter_map, List.map_map]
  simp only [List.filter_map, List.map_map]
  exact List.Perm.refl _

/-! ### the WRKChain and BEACON lists -/

theorem regStore_keys (r : RegState) (hi : RegInv r) (hq : r.nextId < two64) :
    ((r.regs.map (fun x => (u64be x.1, x.2))).map (·.1)).Nodup ∧
    ∀ x ∈ r.regs.map (fun x => (u64be x.1, x.2)), x.1 ≠ [] := by
  constructor
  · have hnd : (r.regs.map (·.1)).Nodup := hi.nodupRegs
    have : ((r.regs.map (fun x => (u64be x.1, x.2))).map (·.1)) = (r.regs.map (·.1)).map u64be := by
      rw [List.map_map, List.map_map]; rfl
    rw [this]
    have hlt : ∀ a ∈ r.regs.map (·.1), a < 18446744073709551616 := by
      intro a ha
      obtain ⟨m, hm⟩ := find_some_of_mem r.regs a ha
      have h1 := (hi.idsBelowNext a m hm).2
      unfold two64 at hq; omega
    unfold List.Nodup at hnd ⊢
    rw [List.pairwise_map]
    refine List.Pairwise.imp_of_mem ?_ hnd
    intro a b ha hb hab heq
    exact hab (C18.c18_u64be_inj a b (hlt a ha) (hlt b hb) heq)
  · intro x hx
    obtain ⟨y, _, rfl⟩ := List.mem_map.mp hx
    simp [u64be]

/-- the filter of `WrkChainsFiltered` / `BeaconsFiltered` -/
def regHit (moniker : String) (owner : AddrTok) : Bytes → RegMeta → Bool := fun _ m =>
  (decide (owner = .empty) || decide (m.owner = owner)) && (moniker.isEmpty || decide (m.moniker = moniker))

/-- with no owner filter, or one that decodes, the list query is `FilteredPaginate` with `regHit` -/
theorem regList_eq (r : RegState) (moniker : String) (owner : AddrTok) (ho : owner = .empty ∨ owner.decode.isSome = true)
    (req : Req) : Query.regList r moniker owner req = filtered (Query.regStore r) req (fun k v => some (regHit moniker owner k v)) := by
  unfold Query.regList regHit
  congr 1
  funext _ m
  rcases ho with ho | ho
  · simp [ho]
  · have : ¬ (owner ≠ .empty ∧ owner.decode.isNone = true) := by
      intro hc; rw [Option.isNone_iff_eq_none] at hc; rw [hc.2] at ho; simp at ho
    rw [if_neg this]

/-- **WRKChains and BEACONs.**  Paging through `WrkChainsFiltered` / `BeaconsFiltered` by key with any moniker /
owner filter and any limit returns every registration that matches exactly once, in ascending id order, and
nothing else — in every state of every run. -/
theorem c20_registrations_walk (r : RegState) (hi : RegInv r) (hq : r.nextId < two64)
    (moniker : String) (owner : AddrTok) (L : Nat) (hL : 1 ≤ L) (hL' : L + 1 < two64) :
    ∃ pages, walkKeys (Query.regStore r) (fun k v => some (regHit moniker owner k v)) L ((Query.regStore r).length + 2) [] = some pages ∧
      pages.Perm ((r.regs.map (·.2)).filter (fun m => regHit moniker owner [] m)) := by
  obtain ⟨h1, h2⟩ := regStore_keys r hi hq
  obtain ⟨pages, hw, _, hp⟩ := c20_pages_partition_by_key _ h1 h2 (regHit moniker owner) L hL hL'
  refine ⟨pages, hw, hp.trans ?_⟩
  simp only [List.filter_map, List.map_map]
  exact List.Perm.refl _

theorem c20_wrkchains_walk (g : GenCfg) (hg : GenRegValid g) (s : State) (hr : FineReach g WrkQ s) (hq : WrkQ s)
    (moniker : String) (owner : AddrTok) (L : Nat) (hL : 1 ≤ L) (hL' : L + 1 < two64) :
    ∃ pages, walkKeys (Query.regStore s.wrk) (fun k v => some (regHit moniker owner k v)) L ((Query.regStore s.wrk).length + 2) [] = some pages ∧
      pages.Perm ((s.wrk.regs.map (·.2)).filter (fun m => regHit moniker owner [] m)) :=
  c20_registrations_walk s.wrk (wrkInv_reachable g hg s hr).reg (by unfold WrkQ RegBounded at hq; omega) moniker owner L hL hL'

theorem c20_beacons_walk (g : GenCfg) (hg : GenRegValid g) (s : State) (hr : FineReach g BcnQ s) (hq : BcnQ s)
    (moniker : String) (owner : AddrTok) (L : Nat) (hL : 1 ≤ L) (hL' : L + 1 < two64) :
    ∃ pages, walkKeys (Query.regStore s.bcn) (fun k v => some (regHit moniker owner k v)) L ((Query.regStore s.bcn).length + 2) [] = some pages ∧
      pages.Perm ((s.bcn.regs.map (·.2)).filter (fun m => regHit moniker owner [] m)) :=
  c20_registrations_walk s.bcn (bcnInv_reachable g hg s hr).reg (by unfold BcnQ RegBounded at hq; omega) moniker owner L hL hL'

/-! ### the stream lists -/

/-- what the lists need from the address bytes: every address is 1 … 255 bytes long (the SDK's limit, enforced by
`address.LengthPrefix`) and different addresses have different bytes.  Addresses of different lengths are allowed. -/
def AddrTableOK (tbl : List (Addr × Bytes)) (st : StreamState) : Prop :=
  (∀ x ∈ st.streams, (0 < (Query.addrBytes tbl x.1.1).length ∧ (Query.addrBytes tbl x.1.1).length ≤ 255) ∧
    (0 < (Query.addrBytes tbl x.1.2).length ∧ (Query.addrBytes tbl x.1.2).length ≤ 255)) ∧
  ∀ x ∈ st.streams, ∀ y ∈ st.streams,
    (Query.addrBytes tbl x.1.1 = Query.addrBytes tbl y.1.1 → x.1.1 = y.1.1) ∧
    (Query.addrBytes tbl x.1.2 = Query.addrBytes tbl y.1.2 → x.1.2 = y.1.2)

theorem lp_inj (a b : Bytes) (h : Query.lp a = Query.lp b) : a = b := by
  unfold Query.lp at h; exact (List.cons.inj h).2

theorem lp_pair_inj (a b a' b' : Bytes) (h : Query.lp a ++ Query.lp b = Query.lp a' ++ Query.lp b') : a = a' ∧ b = b' := by
  unfold Query.lp at h
  simp only [List.cons_append] at h
  obtain ⟨hl, ht⟩ := List.cons.inj h
  obtain ⟨h1, h2⟩ := List.append_inj ht hl
  exact ⟨h1, (List.cons.inj h2).2⟩

theorem streamStore_keys (tbl : List (Addr × Bytes)) (st : StreamState) (ht : AddrTableOK tbl st) (hn : NoDupKeys st.streams) :
    ((st.streams.map (fun x => (Query.lp (Query.addrBytes tbl x.1.1) ++ Query.lp (Query.addrBytes tbl x.1.2), x))).map (·.1)).Nodup ∧
    ∀ x ∈ st.streams.map (fun x => (Query.lp (Query.addrBytes tbl x.1.1) ++ Query.lp (Query.addrBytes tbl x.1.2), x)), x.1 ≠ [] := by
  constructor
  · rw [List.map_map]
    have hnd : (st.streams.map (·.1)).Nodup := hn
    unfold List.Nodup at hnd ⊢
    rw [List.pairwise_map] at hnd ⊢
    refine List.Pairwise.imp_of_mem ?_ hnd
    intro a b ha hb hab heq
    obtain ⟨h1, h2⟩ := lp_pair_inj _ _ _ _ heq
    exact hab (Prod.ext ((ht.2 a ha b hb).1 h1) ((ht.2 a ha b hb).2 h2))
  · intro x hx
    obtain ⟨y, _, rfl⟩ := List.mem_map.mp hx
    simp [Query.lp]

/-- **Streams, and streams by sender.**  Paging through `Streams` (filter: all) or `AllStreamsForSender` (filter:
that sender) by key with any limit returns every matching stream exactly once and nothing else — whatever the
byte lengths of the addresses involved. -/
theorem c20_streams_walk (tbl : List (Addr × Bytes)) (st : StreamState) (ht : AddrTableOK tbl st) (hn : NoDupKeys st.streams)
    (hit : Query.StreamItem → Bool) (L : Nat) (hL : 1 ≤ L) (hL' : L + 1 < two64) :
    ∃ pages, walkKeys (Query.streamStore tbl st) (fun _ v => some (hit v)) L ((Query.streamStore tbl st).length + 2) [] = some pages ∧
      pages.Perm (st.streams.filter hit) := by
  obtain ⟨h1, h2⟩ := streamStore_keys tbl st ht hn
  obtain ⟨pages, hw, _, hp⟩ := c20_pages_partition_by_key _ h1 h2 (fun _ v => hit v) L hL hL'
  refine ⟨pages, hw, hp.trans ?_⟩
  simp only [List.filter_map, List.map_map]
  have : ((fun x : Bytes × Query.StreamItem => x.2) ∘
      (fun x : (Addr × Addr) × Stream => (Query.lp (Query.addrBytes tbl x.1.1) ++ Query.lp (Query.addrBytes tbl x.1.2), x))) = id := rfl
  rw [this, List.map_id]
  exact List.Perm.of_eq (by congr 1)

/-- **Streams by receiver** (a prefix scan of the receiver's section): every stream of that receiver exactly
once, and no stream of any other receiver. -/
theorem c20_streams_by_receiver_walk (tbl : List (Addr × Bytes)) (st : StreamState) (ht : AddrTableOK tbl st)
    (hn : NoDupKeys st.streams) (ra : Addr) (L : Nat) (hL : 1 ≤ L) (hL' : L + 1 < two64) :
    let sect := sortKV ((st.streams.filter (fun x => x.1.1 = ra)).map (fun x => (Query.lp (Query.addrBytes tbl x.1.2), x)))
    ∃ pages, walkKeys sect (fun _ _ => some true) L (sect.length + 2) [] = some pages ∧
      pages.Perm (st.streams.filter (fun x => x.1.1 = ra)) := by
  intro sect
  have h1 : (((st.streams.filter (fun x => x.1.1 = ra)).map (fun x => (Query.lp (Query.addrBytes tbl x.1.2), x))).map (·.1)).Nodup := by
    rw [List.map_map]
    have hnd : (st.streams.map (·.1)).Nodup := hn
    have hsub : ((st.streams.filter (fun x => x.1.1 = ra)).map (·.1)).Nodup := by
      unfold List.Nodup at hnd ⊢
      rw [List.pairwise_map] at hnd ⊢
      exact hnd.sublist List.filter_sublist
    unfold List.Nodup at hsub ⊢
    rw [List.pairwise_map] at hsub ⊢
    refine List.Pairwise.imp_of_mem ?_ hsub
    intro a b ha hb hab heq
    have ha' := (List.mem_filter.mp ha).2
    have hb' := (List.mem_filter.mp hb).2
    simp only [decide_eq_true_eq] at ha' hb'
    have hs := (ht.2 a (List.mem_filter.mp ha).1 b (List.mem_filter.mp hb).1).2 (lp_inj _ _ heq)
    exact hab (Prod.ext (ha'.trans hb'.symm) hs)
  have h2 : ∀ x ∈ (st.streams.filter (fun x => x.1.1 = ra)).map (fun x => (Query.lp (Query.addrBytes tbl x.1.2), x)), x.1 ≠ [] := by
    intro x hx
    obtain ⟨y, _, rfl⟩ := List.mem_map.mp hx
    simp [Query.lp]
  obtain ⟨pages, hw, _, hp⟩ := c20_pages_partition_by_key _ h1 h2 (fun _ _ => true) L hL hL'
  refine ⟨pages, hw, hp.trans ?_⟩
  have hf : ∀ (l : List (Bytes × Query.StreamItem)), l.filter (fun e => (fun (_ : Bytes) (_ : Query.StreamItem) => true) e.1 e.2) = l :=
    fun l => by simp
  have : ((fun x : Bytes × Query.StreamItem => x.2) ∘
      (fun x : (Addr × Addr) × Stream => (Query.lp (Query.addrBytes tbl x.1.2), x))) = id := rfl
  rw [hf, List.map_map, this, List.map_id]

/-- the list queries of the model *are* these paging calls -/
example (tbl : List (Addr × Bytes)) (st : StreamState) (req : Req) :
    Query.strStreams tbl st req = filtered (Query.streamStore tbl st) req (fun _ _ => some true) := rfl
example (tbl : List (Addr × Bytes)) (st : StreamState) (sa : Addr) (req : Req) :
    Query.strBySender tbl st (AddrTok.canon sa) req =
      filtered (Query.streamStore tbl st) req (fun _ x => some (decide (x.1.2 = sa))) := by
  simp [Query.strBySender, AddrTok.canon, AddrTok.decode]

/-- non-vacuity: a 32-byte receiver, a 20-byte receiver that is a prefix of it, and two senders — the table
hypothesis holds and the store has three distinct keys -/
def exTbl : List (Addr × Bytes) :=
  [(2001, List.replicate 20 7 ++ List.replicate 12 9), (2003, List.replicate 20 7), (1, List.replicate 20 1), (2, List.replicate 20 2)]
def exStr : Stream := { denom := "nund", deposit := 10, rate := 1, last := 0, zero := 10, cancellable := true }
def exSt : StreamState := { fee := 0, streams := [((2001, 1), exStr), ((2003, 1), exStr), ((2003, 2), exStr)] }
example : AddrTableOK exTbl exSt ∧ NoDupKeys exSt.streams ∧ (Query.streamStore exTbl exSt).length = 3 := by
  refine ⟨?_, by unfold NoDupKeys AL.keys; decide, by decide⟩
  unfold AddrTableOK
  constructor
  · intro x hx
    simp only [exSt, List.mem_cons, List.not_mem_nil, or_false] at hx
    rcases hx with rfl | rfl | rfl <;> decide
  · intro x hx y hy
    simp only [exSt, List.mem_cons, List.not_mem_nil, or_false] at hx hy
    rcases hx with rfl | rfl | rfl <;> rcases hy with rfl | rfl | rfl <;> decide

/-- the two theorems above in every state of every run -/
theorem c20_stream_lists_reachable (g : GenCfg) (hg : GenBankValid g) (s : State) (h : FineReach g BankSane s) :
    NoDupKeys s.str.streams := (strInv_reachable g hg s h).nodup

/-- **Consistency with the point query.**  Every stored order is what `EnterpriseUndPurchaseOrder(id)`
returns for its id (ids are never 0: the genesis starting id is validated to be positive). -/
theorem c20_listed_order_eq_point_query (g : GenCfg) (s : State) (hr : FineReach g EntQ s) (id : Nat) (po : PO)
    (hf : find? s.ent.orders id = some po) (h0 : id ≠ 0) : Query.entPo s.ent po.id = some po := by
  have hi := bookInv_reachable g s hr
  have := hi.idKey id po hf
  simp [Query.entPo, this, h0, hf]

/-- the same for registrations and streams -/
theorem c20_listed_registration_eq_point_query (r : RegState) (id : Nat) (m : RegMeta) (hf : find? r.regs id = some m)
    (h0 : id ≠ 0) : Query.regGet r id = some m := by
  simp [Query.regGet, h0, hf]

theorem c20_listed_stream_eq_point_query (st : StreamState) (ra sa : Addr) (x : Stream)
    (hf : find? st.streams (ra, sa) = some x) :
    Query.strGet st (AddrTok.canon ra) (AddrTok.canon sa) = some ((ra, sa), x) := by
  simp [Query.strGet, AddrTok.canon, AddrTok.decode, hf]

/-- **Queries never modify state.**  A QUERY (or DIGEST) line leaves the node exactly as it was: the query
servers of the model are functions of the committed state with no state result. -/
theorem c20_queries_do_not_modify_state (wall : Nat) (it : Script.Interp) (line k kind : String) (args : List String) :
    (Script.stepToks wall it line ("QUERY" :: k :: kind :: args)).1.node = it.node ∧
    (Script.stepToks wall it line ["DIGEST"]).1.node = it.node := by
  constructor
  · simp only [Script.stepToks]
    split
    · split <;> rfl
    · rfl
  · simp only [Script.stepToks]
    split <;> rfl

end C20
end Mainchain
