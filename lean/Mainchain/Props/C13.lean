import Mainchain.Lemmas.Fine
import Mainchain.Lemmas.StreamInv
import Mainchain.Model.Pure
import Mainchain.Lemmas.RegistryInv
/-
C13 — Every state-changing message takes effect only for its entitled signer.

`m.signer` is `GetSigners()[0]` of the message: for the four custom modules it is read through the
table `Facts.signerField`, regenerated from every `GetSigners` body of x/*/types/msgs.go on each run.
-/
namespace Mainchain
namespace C13
open AL

/-- the field each message type names as its signer (regenerated from the source) -/
theorem c13_signer_fields :
    Facts.signerField = [
      ("beacon.MsgPurchaseBeaconStateStorage", "Owner"), ("beacon.MsgRecordBeaconTimestamp", "Owner"),
      ("beacon.MsgRegisterBeacon", "Owner"), ("beacon.MsgUpdateParams", "Authority"),
      ("enterprise.MsgProcessUndPurchaseOrder", "Signer"), ("enterprise.MsgUndPurchaseOrder", "Purchaser"),
      ("enterprise.MsgUpdateParams", "Authority"), ("enterprise.MsgWhitelistAddress", "Signer"),
      ("stream.MsgCancelStream", "Sender"), ("stream.MsgClaimStream", "Receiver"), ("stream.MsgCreateStream", "Sender"),
      ("stream.MsgTopUpDeposit", "Sender"), ("stream.MsgUpdateFlowRate", "Sender"), ("stream.MsgUpdateParams", "Authority"),
      ("wrkchain.MsgPurchaseWrkChainStateStorage", "Owner"), ("wrkchain.MsgRecordWrkChainBlock", "Owner"),
      ("wrkchain.MsgRegisterWrkChain", "Owner"), ("wrkchain.MsgUpdateParams", "Authority")] := by
  decide

/-- what entitles the signer `a` to message `m` in state `s` (the table of the statement) -/
def Entitled (s : State) (a : Addr) : Msg → Prop
  | .entRaise p _ _ => p.decode = some a ∧ s.ent.whitelist.contains a = true
  | .entDecide _ _ sg => sg.decode = some a ∧ a ∈ s.ent.params.signerAddrs
  | .entWl _ _ sg => sg.decode = some a ∧ a ∈ s.ent.params.signerAddrs
  | .entParams auth _ => auth = AddrTok.canon Mgov ∧ a = Mgov
  | .regParams _ auth _ => auth = AddrTok.canon Mgov ∧ a = Mgov
  | .strParams auth _ => auth = AddrTok.canon Mgov ∧ a = Mgov
  | .regReg _ _ _ _ _ o => o.decode = some a
  | .regRec k id _ _ o => o.decode = some a ∧ (s.reg k).ownerOf id = some a
  | .regBuy k id _ o => o.decode = some a ∧ (s.reg k).ownerOf id = some a
  | .strCreate _ sn _ _ _ => sn.decode = some a
  | .strClaim r sn => r.decode = some a ∧ ∃ sa, sn.decode = some sa ∧ (AL.contains s.str.streams (a, sa)) = true
  | .strTopup r sn _ _ => sn.decode = some a ∧ ∃ ra, r.decode = some ra ∧ (AL.contains s.str.streams (ra, a)) = true
  | .strRate r sn _ => sn.decode = some a ∧ ∃ ra, r.decode = some ra ∧ (AL.contains s.str.streams (ra, a)) = true
  | .strCancel r sn => sn.decode = some a ∧ ∃ ra, r.decode = some ra ∧ (AL.contains s.str.streams (ra, a)) = true
  | .bankSend src _ _ => src.decode = some a
  | .authzGrant g _ _ => g.decode = some a
  | .authzRevoke g _ _ => g.decode = some a
  | .feegrantGrant g _ => g.decode = some a
  | .authzExec g _ => g.decode = some a

theorem ownedBy_owner (r : RegState) (id : Nat) (a : Addr) (m : RegMeta) (h : r.ownedBy id a = .ok m) : r.ownerOf id = some a := by
  unfold RegState.ownedBy at h
  unfold RegState.ownerOf
  split at h
  · cases h
  · rename_i m' hf
    split at h
    · rename_i ho; cases h; simp [hf, ho]
    · cases h

theorem contains_of_find {κ ν : Type} [DecidableEq κ] (m : List (κ × ν)) (x : κ) (v : ν) (h : find? m x = some v) :
    AL.contains m x = true := by simp [AL.contains, h]

/-- **Entitlement.**  A message handler succeeds (and so can change state) only when the account named
in the message's signer field is the party the operation belongs to: the whitelisted purchaser, a
currently authorised enterprise signer, the registered owner, the stream's sender resp. receiver, the
governance authority for parameter updates. -/
theorem c13_effect_requires_entitled_signer (wall : Nat) (s s' : State) (m : Msg) (r : Resp)
    (h : execMsg wall s m = .ok (s', r)) : ∃ a, m.signer = some a ∧ Entitled s a m := by
  cases m with
  | entRaise p amt denom =>
    simp only [execMsg, EntState.raise, bind_eq_ok, pure_eq_ok, require_eq_ok, decodeM_eq_ok] at h
    obtain ⟨_, ⟨a, ha, _, _, _, _, _, hw, _⟩, _⟩ := h
    exact ⟨a, by simp [Msg.signer, ha], ha, hw⟩
  | entDecide id dec sg =>
    simp only [execMsg, EntState.decide_, bind_eq_ok, pure_eq_ok, require_eq_ok, decodeM_eq_ok] at h
    obtain ⟨_, ⟨a, ha, _, hauth, _⟩, _⟩ := h
    exact ⟨a, by simp [Msg.signer, ha], ha, by simpa [EntState.isAuthorised] using hauth⟩
  | entWl action addr sg =>
    simp only [execMsg, EntState.whitelistMsg, bind_eq_ok, pure_eq_ok, require_eq_ok, decodeM_eq_ok] at h
    obtain ⟨_, ⟨a, ha, _, _, _, hauth, _⟩, _⟩ := h
    exact ⟨a, by simp [Msg.signer, ha], ha, by simpa [EntState.isAuthorised] using hauth⟩
  | entParams auth p =>
    simp only [execMsg, requireAuthority, bind_eq_ok, require_eq_ok, decide_eq_true_eq] at h
    obtain ⟨_, ha, _⟩ := h
    exact ⟨Mgov, by simp [Msg.signer, ha, AddrTok.canon, AddrTok.decode], ha, rfl⟩
  | regParams k auth p =>
    simp only [execMsg, requireAuthority, bind_eq_ok, require_eq_ok, decide_eq_true_eq] at h
    obtain ⟨_, ha, _⟩ := h
    exact ⟨Mgov, by simp [Msg.signer, ha, AddrTok.canon, AddrTok.decode], ha, rfl⟩
  | strParams auth fee =>
    simp only [execMsg, requireAuthority, bind_eq_ok, require_eq_ok, decide_eq_true_eq] at h
    obtain ⟨_, ha, _⟩ := h
    exact ⟨Mgov, by simp [Msg.signer, ha, AddrTok.canon, AddrTok.decode], ha, rfl⟩
  | regReg k moniker name genesis type o =>
    simp only [execMsg, RegState.register, bind_eq_ok, pure_eq_ok, decodeM_eq_ok] at h
    obtain ⟨_, ⟨a, ha, _⟩, _⟩ := h
    exact ⟨a, by simp [Msg.signer, ha], ha⟩
  | regRec k id key rc o =>
    simp only [execMsg, RegState.record, bind_eq_ok, decodeM_eq_ok] at h
    obtain ⟨_, ⟨a, ha, hx⟩, _⟩ := h
    refine ⟨a, by simp [Msg.signer, ha], ha, ?_⟩
    split at hx
    · simp only [bind_eq_ok] at hx
      obtain ⟨_, _, _, _, m, hm, _⟩ := hx
      exact ownedBy_owner _ _ _ _ hm
    · simp only [bind_eq_ok] at hx
      obtain ⟨_, _, m, hm, _⟩ := hx
      exact ownedBy_owner _ _ _ _ hm
  | regBuy k id n o =>
    simp only [execMsg, RegState.purchase, bind_eq_ok, decodeM_eq_ok] at h
    obtain ⟨_, ⟨a, ha, _, _, m, hm, _⟩, _⟩ := h
    exact ⟨a, by simp [Msg.signer, ha], ha, ownedBy_owner _ _ _ _ hm⟩
  | strCreate rr sn amt denom rate =>
    simp only [execMsg, createStream, bind_eq_ok, decodeM_eq_ok] at h
    obtain ⟨_, ⟨a, ha, _⟩, _⟩ := h
    exact ⟨a, by simp [Msg.signer, ha], ha⟩
  | strClaim rr sn =>
    simp only [execMsg, claimStream, bind_eq_ok, require_eq_ok, decodeM_eq_ok] at h
    obtain ⟨_, ⟨sa, hsa, ra, hra, _, hc, _⟩, _⟩ := h
    exact ⟨ra, by simp [Msg.signer, hra], hra, sa, hsa, hc⟩
  | strTopup rr sn amt denom =>
    simp only [execMsg, topUpDeposit, bind_eq_ok, require_eq_ok, decodeM_eq_ok] at h
    obtain ⟨_, ⟨sa, hsa, ra, hra, _, _, st, hst, _⟩, _⟩ := h
    exact ⟨sa, by simp [Msg.signer, hsa], hsa, ra, hra, contains_of_find _ _ _ (findStream_ok _ _ _ _ _ hst)⟩
  | strRate rr sn rate =>
    simp only [execMsg, updateFlowRate, bind_eq_ok, require_eq_ok, decodeM_eq_ok] at h
    obtain ⟨_, ⟨sa, hsa, ra, hra, _, _, _, hc, _⟩, _⟩ := h
    exact ⟨sa, by simp [Msg.signer, hsa], hsa, ra, hra, hc⟩
  | strCancel rr sn =>
    simp only [execMsg, cancelStreamMsg, bind_eq_ok, require_eq_ok, decodeM_eq_ok] at h
    obtain ⟨_, ⟨sa, hsa, ra, hra, st, hst, _⟩, _⟩ := h
    exact ⟨sa, by simp [Msg.signer, hsa], hsa, ra, hra, contains_of_find _ _ _ (findStream_ok _ _ _ _ _ hst)⟩
  | bankSend src dst coins =>
    simp only [execMsg, bind_eq_ok, decodeM_eq_ok] at h
    obtain ⟨a, ha, _⟩ := h
    exact ⟨a, by simp [Msg.signer, ha], ha⟩
  | authzGrant g e kind =>
    simp only [execMsg, bind_eq_ok, decodeM_eq_ok] at h
    obtain ⟨a, ha, _⟩ := h
    exact ⟨a, by simp [Msg.signer, ha], ha⟩
  | authzRevoke g e kind =>
    simp only [execMsg, bind_eq_ok, decodeM_eq_ok] at h
    obtain ⟨a, ha, _⟩ := h
    exact ⟨a, by simp [Msg.signer, ha], ha⟩
  | authzExec g msgs =>
    simp only [execMsg, bind_eq_ok, decodeM_eq_ok] at h
    obtain ⟨a, ha, _⟩ := h
    exact ⟨a, by simp [Msg.signer, ha], ha⟩
  | feegrantGrant g e =>
    simp only [execMsg, bind_eq_ok, decodeM_eq_ok] at h
    obtain ⟨a, ha, _⟩ := h
    exact ⟨a, by simp [Msg.signer, ha], ha⟩

/-- **Binding to keys.**  The composed ante chain of the repository lets a transaction through only if
its signatures are exactly those of the `GetSigners` of its top-level messages, each made with the
signer's own key and current sequence, and every such signer is an address somebody can hold a key for
(never a module account). -/
theorem c13_tx_binds_signers (mode : Mode) (hm : mode ≠ .recheck) (s s' : State) (tx : Tx) (h : ante Facts.anteOrder mode s tx = .ok s') :
    tx.signers = tx.required ∧ tx.sig = .ok ∧ tx.required.all isUserAddr = true ∧
    (∀ m ∈ tx.msgs, ∀ a, m.signer = some a → a ∈ tx.signers) := by
  have horder : Facts.anteOrder = ["SetUpContext", "ExtensionOptions", "ValidateBasic", "TxTimeoutHeight", "ValidateMemo",
    "ConsumeGasForTxSize", "CorrectWrkChainFee", "CorrectBeaconFee", "CheckLockedUnd", "DeductFee", "SetPubKey",
    "ValidateSigCount", "SigGasConsume", "SigVerification", "IncrementSequence", "RedundantRelay"] := by decide
  have h' := h
  rw [horder] at h
  simp only [ante, List.foldlM_cons, anteStepM, anteStep, bind_eq_ok, pure_eq_ok, Except.ok.injEq, exists_eq_left'] at h
  obtain ⟨_, _, _, _, _, _, _, _, _, _, s11, h11, s14, h14, _⟩ := h
  simp only [stepSetPubKey, bind_eq_ok, require_eq_ok, decide_eq_true_eq] at h11
  obtain ⟨_, hs, _, hu, _⟩ := h11
  simp only [stepSigVerificationR, hm, if_false, stepSigVerification, bind_eq_ok] at h14
  obtain ⟨_, _, h14⟩ := h14
  have hsig : tx.sig = .ok := by
    split at h14 <;> simp_all
  refine ⟨hs, hsig, hu, ?_⟩
  intro m hm a ha
  rw [hs]; exact mem_required tx m a hm ha

/-- **Nesting.**  A message wrapped in an authorisation-exec runs only if the wrapper's signer (the
grantee) is itself the message's signer, or holds a grant for exactly this message type given by the
message's signer — and grants are only ever given by their (key-holding) granter
(`leaf_grantsOK`).  The handler then applies the same entitlement check as at the top level. -/
theorem c13_nested_requires_grant_from_signer (wall : Nat) (grantee : Addr) (s s' : State) (m : Msg) (ms : List Msg)
    (h : dispatch wall grantee s (m :: ms) = .ok s') :
    ∃ a, m.signer = some a ∧ (a = grantee ∨ (a, grantee, m.kind) ∈ s.grants) ∧ Msg.validateBasic s m = .ok () := by
  simp only [dispatch, bind_eq_ok, require_eq_ok, Bool.or_eq_true, decide_eq_true_eq] at h
  obtain ⟨a, ha, _, hauth, _, hvb, _⟩ := h
  refine ⟨a, ?_, ?_, hvb⟩
  · unfold Msg.signerM at ha; split at ha <;> simp_all
  · rcases hauth with h1 | h1
    · exact Or.inl h1
    · exact Or.inr (by simpa using h1)

/-- In every run, every message that executes — top level, nested at any depth, or carried by a
governance proposal — has as its signer an address that somebody can sign for or the gov module
itself, or — through an authz grant that was already in the genesis document — an account outside the application's
module range (group-policy, interchain, module-derived accounts); no module account of the application other than gov
can ever be the signer of an executed message. -/
theorem c13_executed_messages_are_signed (g : GenCfg) (hgg : GenGrantsOK g) (s s' : State) (hr : Reachable g s)
    (hs : ChainStep s s') : FinePath s s' ∧ GrantsOK s' :=
  chainStep_fine s s' hs (reachable_fine g hgg s hr).2

/-- the genesis premise is satisfiable with a grant from a 32-byte (non-key) account in the genesis document -/
example : GenGrantsOK { grants := [(2001, 0, "str.create")] } := by
  intro ga ea k h
  simp only [List.mem_cons, Prod.mk.injEq, List.not_mem_nil, or_false] at h
  obtain ⟨rfl, _, _⟩ := h
  exact Or.inr (Or.inr (by decide))

/-- an explicit fee payer (`AuthInfo.Fee.Payer`) is a required signer: a transaction naming somebody else as the payer of
its fee is executed only with that account's signature -/
theorem c13_fee_payer_signs (mode : Mode) (hm : mode ≠ .recheck) (s s' : State) (tx : Tx) (p : Addr)
    (h : ante Facts.anteOrder mode s tx = .ok s') (hp : tx.feePayer = some p) : p ∈ tx.signers ∧ tx.payer = some p := by
  obtain ⟨hs, _, _, _⟩ := c13_tx_binds_signers mode hm s s' tx h
  refine ⟨?_, by unfold Tx.payer; rw [hp]⟩
  rw [hs]
  unfold Tx.required
  rw [hp]
  simp only
  split
  · rename_i hc; simpa using hc
  · simp

/-- only the gov module account passes the authority check of the four `MsgUpdateParams` handlers, and a
proposal message is executed only with the gov module as its signer -/
theorem c13_params_only_by_governance (wall : Nat) (s : State) (m : Msg) :
    (govExec wall s m).2 = true → m.signer = some Mgov := by
  unfold govExec
  split
  · intro h; cases h
  · rename_i hs; intro _; simpa using hs

/-- the same for a proposal carrying several messages: it is executed only if the gov module account is the
signer of every one of them -/
theorem c13_proposal_only_by_governance (wall : Nat) (s : State) (msgs : List Msg) :
    (govExecAll wall s msgs).2 = true → ∀ m ∈ msgs, m.signer = some Mgov := by
  unfold govExecAll
  split
  · rename_i hall
    intro _ m hm
    simpa using List.all_eq_true.mp hall m hm
  · intro h; cases h

/-- **The owner gate, whatever string is stored as the owner** (`IsAuthorisedToRecord`, the only gate in front of records and
storage purchases): it lets `a` through for registration `id` exactly when the registration exists and its stored owner string
DECODES to `a`.  In particular a registration whose stored owner does not decode under the chain's address prefix — it can
only have come in through a genesis file: a foreign prefix, a typo, an empty string — is open to nobody.  (The registry state
is arbitrary here, not only a reachable one: registrations written by `InitGenesis` are covered.) -/
theorem c13_owner_gate_for_any_stored_owner (r : RegState) (id : Nat) (a : Addr) :
    (∃ m, r.ownedBy id a = .ok m) ↔ (∃ m, find? r.regs id = some m ∧ m.owner.decode = some a) := by
  constructor
  · rintro ⟨m, h⟩
    exact ⟨m, ownedBy_ok r id a m h⟩
  · rintro ⟨m, hm, hd⟩
    exact ⟨m, by simp [RegState.ownedBy, hm, hd]⟩

theorem c13_undecodable_owner_authorises_nobody (r : RegState) (id : Nat) (m : RegMeta) (hm : find? r.regs id = some m)
    (hbad : m.owner = .bad ∨ m.owner = .empty) (a : Addr) : ∀ m', r.ownedBy id a ≠ .ok m' := by
  intro m' h
  obtain ⟨hm', hd⟩ := ownedBy_ok r id a m' h
  rw [hm] at hm'; cases hm'
  rcases hbad with hb | hb <;> simp [hb, AddrTok.decode] at hd

/-- the function the pure engine runs against the keeper's `IsAuthorisedToRecord` (`ownergate` requests: 2 modules × 19
stored spellings × 3 recorders, the whole table every run) is that gate -/
theorem c13_owner_gate_request_is_the_gate (k : RegKind) (own : Option AddrTok) (a : Addr) :
    Pure.ownerGate k own a = true ↔ ∃ o, own = some o ∧ o.decode = some a := by
  unfold Pure.ownerGate
  cases own with
  | none => simp [RegState.ownedBy, find?]
  | some o =>
    cases hd : o.decode with
    | none => simp [RegState.ownedBy, find?, hd]
    | some b =>
      by_cases hb : b = a
      · subst hb; simp [RegState.ownedBy, find?, hd]
      · simp [RegState.ownedBy, find?, hd, hb]

/-- **Records and storage purchases go through that gate, whatever is stored**: for ANY registry state, a record or a storage
purchase message takes effect only when the registration exists and its stored owner string decodes to the address the
message names as owner (which is the address that signed, `c13_effect_requires_entitled_signer`). -/
theorem c13_record_and_purchase_pass_the_owner_gate (r : RegState) (now wall id key n : Nat) (rc : Rec) (o : AddrTok) :
    (∀ x, r.record now wall id key rc o = .ok x → ∃ a m, o.decode = some a ∧ find? r.regs id = some m ∧ m.owner.decode = some a) ∧
    (∀ x, r.purchase id n o = .ok x → ∃ a m, o.decode = some a ∧ find? r.regs id = some m ∧ m.owner.decode = some a) := by
  constructor
  · intro x h
    simp only [RegState.record, bind_eq_ok, decodeM_eq_ok] at h
    obtain ⟨a, ha, h⟩ := h
    cases hk : r.kind <;> simp only [hk, bind_eq_ok, require_eq_ok] at h
    · obtain ⟨_, _, _, _, m, hm, _⟩ := h
      obtain ⟨h1, h2⟩ := ownedBy_ok r id a m hm
      exact ⟨a, m, ha, h1, h2⟩
    · obtain ⟨_, _, m, hm, _⟩ := h
      obtain ⟨h1, h2⟩ := ownedBy_ok r id a m hm
      exact ⟨a, m, ha, h1, h2⟩
  · intro x h
    simp only [RegState.purchase, bind_eq_ok, require_eq_ok, decodeM_eq_ok] at h
    obtain ⟨a, ha, _, _, m, hm, _⟩ := h
    obtain ⟨h1, h2⟩ := ownedBy_ok r id a m hm
    exact ⟨a, m, ha, h1, h2⟩

/-- the function the pure engine runs against the two MESSAGE SERVERS (`ownermsg` requests) answers "took effect" only for
the account the stored owner decodes to -/
theorem c13_owner_msg_request_respects_the_gate (k : RegKind) (buy : Bool) (own : Option AddrTok) (a : Addr)
    (h : Pure.ownerMsg k buy own a = true) : ∃ o, own = some o ∧ o.decode = some a := by
  unfold Pure.ownerMsg at h
  cases own with
  | none =>
    cases buy
    · simp only [Bool.false_eq_true, if_false] at h
      split at h
      · rename_i x hx
        obtain ⟨_, m, _, hm, _⟩ := (c13_record_and_purchase_pass_the_owner_gate _ _ _ _ _ 0 _ _).1 x hx
        simp [find?] at hm
      · cases h
    · simp only [if_true] at h
      split at h
      · rename_i x hx
        obtain ⟨_, m, _, hm, _⟩ := (c13_record_and_purchase_pass_the_owner_gate _ 0 0 _ 0 _ { key := 0, h0 := "", subTime := 0 } _).2 x hx
        simp [find?] at hm
      · cases h
  | some o =>
    refine ⟨o, rfl, ?_⟩
    cases buy
    · simp only [Bool.false_eq_true, if_false] at h
      split at h
      · rename_i x hx
        obtain ⟨b, m, hb, hm, hd⟩ := (c13_record_and_purchase_pass_the_owner_gate _ _ _ _ _ 0 _ _).1 x hx
        simp [find?] at hm
        subst hm
        simp only [AddrTok.canon, AddrTok.decode, Option.some.injEq] at hb
        subst hb; exact hd
      · cases h
    · simp only [if_true] at h
      split at h
      · rename_i x hx
        obtain ⟨b, m, hb, hm, hd⟩ := (c13_record_and_purchase_pass_the_owner_gate _ 0 0 _ 0 _ { key := 0, h0 := "", subTime := 0 } _).2 x hx
        simp [find?] at hm
        subst hm
        simp only [AddrTok.canon, AddrTok.decode, Option.some.injEq] at hb
        subst hb; exact hd
      · cases h

example : Pure.ownerMsg .bcn false (some .bad) 3 = false ∧ Pure.ownerMsg .bcn false (some (.ok 3 true)) 3 = true ∧
    Pure.ownerMsg .wrk true (some (.ok 3 false)) 3 = true ∧ Pure.ownerMsg .wrk true (some .empty) 3 = false := by decide

example : Pure.ownerGate .bcn (some .bad) 3 = false ∧ Pure.ownerGate .bcn (some (.ok 3 true)) 3 = true ∧
    Pure.ownerGate .wrk (some (.ok 2 false)) 3 = false ∧ Pure.ownerGate .wrk none 3 = false := by decide

end C13
end Mainchain
