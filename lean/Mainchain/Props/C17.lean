import Mainchain.Lemmas.BankTotalReach
import Mainchain.Lemmas.SortKV
import Mainchain.Model.Query
/-
C17 — Reported circulating supply is total supply minus locked eFUND.

`Query.supplyOf`, `Query.totalUnlocked`, `Query.entSupply`, `Query.totalSupply` are the models of the
enterprise supply queries (x/enterprise/keeper/{locked,grpc_query}.go); the route-order fact (the
enterprise REST routes are registered before the bank's) is regenerated from app.go.
-/
namespace Mainchain
namespace C17
open AL Bank Paginate

/-- **SupplyOf.**  For the enterprise (native) denomination the served figure is the bank's recorded supply
minus the total locked eFUND; for every other denomination it is the bank's recorded supply unchanged. -/
theorem c17_supply_of (s : State) (d : String) (hd : d ≠ "") :
    Query.supplyOf s d =
      if d = s.ent.params.denom then Query.coinSub? { denom := d, amt := s.bank.supplyOf d } s.ent.totalLocked
      else some { denom := d, amt := s.bank.supplyOf d } := by
  simp [Query.supplyOf, hd, Query.supplyCoin]

/-- **Locked + unlocked = total, none negative.**  In every state of every run the total locked eFUND never
exceeds the recorded supply of the enterprise denomination, so the subtraction behind `TotalUnlocked`,
`SupplyOf` and `EnterpriseSupply` succeeds, and the unlocked figure is non-negative and adds up with the
locked one to the bank's recorded supply. -/
theorem c17_locked_plus_unlocked_eq_total (g : GenCfg) (hg : GenBooksValid g) (hb : Balanced (initState g).bank) (s : State)
    (h : FineReach g (BooksQ g.ent.denom) s) (hq : s.ent.params.denom = g.ent.denom) :
    0 ≤ s.ent.totalLocked.amt ∧ s.ent.totalLocked.amt ≤ (s.bank.supplyOf g.ent.denom : Int) ∧
    ∃ u, Query.totalUnlocked s = some u ∧ u.denom = g.ent.denom ∧ 0 ≤ u.amt ∧
      u.amt + s.ent.totalLocked.amt = (s.bank.supplyOf g.ent.denom : Int) ∧
      Query.supplyOf s g.ent.denom = (if g.ent.denom = "" then none else some u) := by
  have ha := entAll_reachable g hg s h
  have hbal := balanced_reachable g hg hb s h
  have hesc := ha.books.escrow g.ent.denom
  simp only [if_true] at hesc
  have hle : (s.bank.balOf Ment g.ent.denom : Int) ≤ s.bank.totalOf g.ent.denom := by
    exact_mod_cast balOf_le_total s.bank ha.str.bank.nodupBal Ment g.ent.denom
  have hsup := hbal g.ent.denom
  have h0 : 0 ≤ s.ent.totalLocked.amt := by rw [← hesc]; exact Int.natCast_nonneg _
  have h1 : s.ent.totalLocked.amt ≤ (s.bank.supplyOf g.ent.denom : Int) := by omega
  refine ⟨h0, h1, { denom := g.ent.denom, amt := (s.bank.supplyOf g.ent.denom : Int) - s.ent.totalLocked.amt }, ?_, rfl, by simp only; omega,
    by simp only; omega, ?_⟩
  · have hne : ¬ ((s.bank.supplyOf g.ent.denom : Int) - s.ent.totalLocked.amt < 0) := by omega
    simp [Query.totalUnlocked, Query.coinSub?, Query.supplyCoin, hq, ha.books.totL, hne]
  · have hne : ¬ ((s.bank.supplyOf g.ent.denom : Int) - s.ent.totalLocked.amt < 0) := by omega
    by_cases hd : g.ent.denom = ""
    · simp [Query.supplyOf, hd]
    · simp [Query.supplyOf, hd, hq, Query.coinSub?, Query.supplyCoin, ha.books.totL, hne]

/-- **What is subtracted is what is really locked.**  In every state of every run the figure the supply queries subtract —
the stored total — equals the sum of the per-account locked records and the balance of the enterprise escrow account:
`SupplyOf(native)` = bank supply − Σ locked records = bank supply − escrow balance. -/
theorem c17_subtracted_amount_is_really_locked (g : GenCfg) (hg : GenBooksValid g) (hb : Balanced (initState g).bank) (s : State)
    (h : FineReach g (BooksQ g.ent.denom) s) (hq : s.ent.params.denom = g.ent.denom) (hd : g.ent.denom ≠ "") :
    s.ent.totalLocked.amt = sumF coinAmt s.ent.locked ∧
    s.ent.totalLocked.amt = (s.bank.balOf Ment g.ent.denom : Int) ∧
    Query.supplyOf s g.ent.denom =
      some { denom := g.ent.denom, amt := (s.bank.supplyOf g.ent.denom : Int) - sumF coinAmt s.ent.locked } := by
  have ha := entAll_reachable g hg s h
  obtain ⟨_, _, u, hu, hud, _, hsum, hsup⟩ := c17_locked_plus_unlocked_eq_total g hg hb s h hq
  have hesc := ha.books.escrow g.ent.denom
  simp only [if_true] at hesc
  refine ⟨ha.books.sumL.symm, hesc.symm, ?_⟩
  rw [hsup, if_neg hd, ha.books.sumL]
  congr 1
  cases u with
  | mk ud ua =>
    simp only at hud hsum
    subst hud
    congr 1
    omega

/-- **TotalSupply listing.**  Paging through the total-supply listing by key returns the bank's supply
entries, each denomination exactly once; the locked eFUND is removed from the enterprise denomination only
(the transformation `Query.totalSupply` applies to a page touches no other coin). -/
theorem c17_total_supply_pages (b : Bank) (hb : BankInv b) (hinj : ∀ x ∈ b.supply, ∀ y ∈ b.supply, Query.denomBytes x.1 = Query.denomBytes y.1 → x.1 = y.1)
    (hne : ∀ x ∈ b.supply, Query.denomBytes x.1 ≠ []) (L : Nat) (hL : 1 ≤ L) (hL' : L + 1 < two64) :
    ∃ pages, walkKeys (Query.supplyStore b) (fun _ _ => some true) L ((Query.supplyStore b).length + 2) [] = some pages ∧
      pages.Perm ((b.supply.filter (fun e => e.2 ≠ 0)).map (fun e => ({ denom := e.1, amt := (e.2 : Int) } : Coin))) ∧
      (pages.map (·.denom)).Nodup := by
  let kvs := (b.supply.filter (fun e => e.2 ≠ 0)).map (fun e => (Query.denomBytes e.1, ({ denom := e.1, amt := (e.2 : Int) } : Coin)))
  have hnd : (kvs.map (·.1)).Nodup := by
    simp only [kvs, List.map_map]
    have h0 : ((b.supply.filter (fun e => e.2 ≠ 0)).map (·.1)).Nodup :=
      List.Nodup.sublist (List.Sublist.map _ List.filter_sublist) hb.nodupSupply
    have : (List.map ((fun x : Keys.Bytes × Coin => x.1) ∘ fun e : String × Nat => (Query.denomBytes e.1, ({ denom := e.1, amt := (e.2 : Int) } : Coin)))
        (b.supply.filter (fun e => e.2 ≠ 0))) = ((b.supply.filter (fun e => e.2 ≠ 0)).map (·.1)).map Query.denomBytes := by
      rw [List.map_map]; rfl
    rw [this]
    unfold List.Nodup at h0 ⊢
    rw [List.pairwise_map]
    refine List.Pairwise.imp_of_mem ?_ h0
    intro x y hx hy hxy heq
    obtain ⟨ex, hex, rfl⟩ := List.mem_map.mp hx
    obtain ⟨ey, hey, rfl⟩ := List.mem_map.mp hy
    exact hxy (hinj ex (List.mem_filter.mp hex).1 ey (List.mem_filter.mp hey).1 heq)
  have hne' : ∀ e ∈ kvs, e.1 ≠ [] := by
    intro e he
    obtain ⟨x, hx, rfl⟩ := List.mem_map.mp he
    exact hne x (List.mem_filter.mp hx).1
  obtain ⟨hsec, hperm⟩ := sortKV_section kvs hnd hne'
  have hw := walkKeys_complete (sortKV kvs) (fun _ _ => true) L hsec hL hL'
  have hall : hitsOf (fun _ _ => true) (sortKV kvs) = sortKV kvs := by simp [hitsOf]
  rw [hall] at hw
  refine ⟨_, hw, ?_, ?_⟩
  · have := hperm.map (·.2)
    simp only [kvs, List.map_map] at this
    exact this
  · have hp := (hperm.map (·.2)).map (·.denom)
    refine (List.Perm.nodup_iff hp).mpr ?_
    simp only [kvs, List.map_map]
    exact List.Nodup.sublist (List.Sublist.map _ List.filter_sublist) hb.nodupSupply

/-- the enterprise REST routes are registered before the bank's, so they answer for the bank's supply
endpoints (regenerated from app.go `RegisterAPIRoutes` on every run) -/
theorem c17_enterprise_routes_win :
    Facts.apiRouteOrder.idxOf "enterprise.RegisterGRPCGatewayRoutes" < Facts.apiRouteOrder.idxOf "ModuleBasics.RegisterGRPCGatewayRoutes" ∧
    "enterprise.RegisterGRPCGatewayRoutes" ∈ Facts.apiRouteOrder ∧ "ModuleBasics.RegisterGRPCGatewayRoutes" ∈ Facts.apiRouteOrder := by
  decide

end C17
end Mainchain
