import Mainchain.Lemmas.Exec
import Mainchain.Lemmas.NodeReach
/-
C01 — Deterministic, restart-safe replicated state machine.

The model is a function of the genesis and the block list, so two executions of the same history agree by
construction.  The theorems below isolate the two things that can differ between nodes at the level of
the model — the wall clock and a crash — and pin, from facts regenerated out of the source on every run,
the sites where the implementation could leave the deterministic world.
-/
namespace Mainchain
namespace C01
open AL

/-- `ValidateBasic` of `MsgRecordBeaconTimestamp` rejects a zero submit time (regenerated from
x/beacon/types/msgs.go), so the wall-clock fallback of the message server is dead code -/
theorem c01_submit_time_zero_rejected : Facts.beaconSubmitTimeZeroRejected = true := by decide

theorem record_wall_irrelevant (r : RegState) (now w1 w2 id key : Nat) (rc : Rec) (o : AddrTok)
    (hvb : r.vbRecord id key rc o = .ok ()) : r.record now w1 id key rc o = r.record now w2 id key rc o := by
  unfold RegState.record
  cases hk : r.kind with
  | wrk => simp [hk]
  | bcn =>
    simp only [RegState.vbRecord, hk, bind_eq_ok, require_eq_ok, decide_eq_true_eq] at hvb
    obtain ⟨_, _, _, _, _, _, _, hst, _⟩ := hvb
    have : rc.subTime ≠ 0 := by simpa using hst
    simp [hk, this]

/-- a leaf handler that passed `ValidateBasic` never looks at the wall clock -/
theorem leaf_wall_irrelevant (w1 w2 : Nat) (s : State) (m : Msg) (hl : m.isLeaf = true) (hvb : Msg.validateBasic s m = .ok ()) :
    execMsg w1 s m = execMsg w2 s m := by
  cases m <;> try rfl
  · rename_i k id key rc o
    simp only [execMsg]
    rw [record_wall_irrelevant (s.reg k) s.nowSecU w1 w2 id key rc o (by simpa [Msg.validateBasic] using hvb)]
  · simp [Msg.isLeaf] at hl

theorem exec_wall_aux (w1 w2 : Nat) : ∀ n, ∀ m : Msg, m.depth ≤ n → ∀ s, Msg.validateBasic s m = .ok () →
    execMsg w1 s m = execMsg w2 s m := by
  intro n
  induction n with
  | zero => intro m hm s hvb; exact leaf_wall_irrelevant w1 w2 s m (Msg.leaf_of_depth_zero m (by omega)) hvb
  | succ n ih =>
    intro m hm s hvb
    cases hleaf : m.isLeaf with
    | true => exact leaf_wall_irrelevant w1 w2 s m hleaf hvb
    | false =>
      cases m <;> simp [Msg.isLeaf] at hleaf
      rename_i g msgs
      simp only [Msg.depth] at hm
      have hl : Msg.depthList msgs ≤ n := by omega
      have key : ∀ (ms : List Msg), Msg.depthList ms ≤ n → ∀ (grantee : Addr) (s : State),
          dispatch w1 grantee s ms = dispatch w2 grantee s ms := by
        intro ms
        induction ms with
        | nil => intro _ _ _; rfl
        | cons x xs ihx =>
          intro hd grantee s
          simp only [Msg.depthList] at hd
          simp only [dispatch]
          cases hg : x.signerM with
          | error e => rfl
          | ok granter =>
            simp only [bind, Except.bind]
            cases hr : require (granter = grantee || s.grants.contains (granter, grantee, x.kind)) (.err "authz" 2) with
            | error e => rfl
            | ok u =>
              simp only []
              cases hv : Msg.validateBasic s x with
              | error e => rfl
              | ok u' =>
                simp only []
                rw [ih x (by omega) s hv]
                cases hx : execMsg w2 s x with
                | error e => rfl
                | ok r => simp only []; exact ihx (by omega) grantee r.1
      simp only [execMsg]
      cases hgd : g.decodeM with
      | error e => rfl
      | ok grantee => simp only [bind, Except.bind]; rw [key msgs hl grantee s]

/-- **The wall clock cannot influence any message**, at any nesting depth: the message-service router
runs `ValidateBasic` before every handler, top level and inside authorisation-exec wrappers. -/
theorem c01_handle_wall_irrelevant (w1 w2 : Nat) (s : State) (m : Msg) : handle w1 s m = handle w2 s m := by
  unfold handle
  cases hv : Msg.validateBasic s m with
  | error e => rfl
  | ok u => simp only [bind, Except.bind]; exact exec_wall_aux w1 w2 m.depth m (Nat.le_refl _) s hv

theorem runMsgs_wall_irrelevant (w1 w2 : Nat) (msgs : List Msg) : ∀ (acc : State × List Resp),
    msgs.foldlM (fun (acc : State × List Resp) m => do
      let (s', r) ← handle w1 acc.1 m
      pure (s', acc.2 ++ [r])) acc =
    msgs.foldlM (fun (acc : State × List Resp) m => do
      let (s', r) ← handle w2 acc.1 m
      pure (s', acc.2 ++ [r])) acc := by
  induction msgs with
  | nil => intro acc; rfl
  | cons m ms ih =>
    intro acc
    simp only [List.foldlM_cons, c01_handle_wall_irrelevant w1 w2 acc.1 m]
    cases handle w2 acc.1 m with
    | error e => rfl
    | ok x => simp only [bind, Except.bind]; exact ih _

theorem runMsgs_wall_eq (w1 w2 : Nat) (s : State) (msgs : List Msg) : runMsgs w1 s msgs = runMsgs w2 s msgs := by
  unfold runMsgs
  exact runMsgs_wall_irrelevant w1 w2 msgs (s, [])

/-- **Wall-clock independence of the whole application**: every DeliverTx (result and state), every
governance execution, and therefore every block and every run, is the same whatever the wall clock reads. -/
theorem c01_wall_clock_irrelevant (order : List String) (w1 w2 : Nat) (s : State) (tx : Tx) (m : Msg) :
    deliverTx order w1 s tx = deliverTx order w2 s tx ∧ govExec w1 s m = govExec w2 s m ∧
    ∀ msgs, govExecAll w1 s msgs = govExecAll w2 s msgs := by
  refine ⟨?_, ?_, fun msgs => by unfold govExecAll; rw [runMsgs_wall_eq w1 w2 s msgs]⟩
  · unfold deliverTx
    cases hvb : Msg.validateBasicList s tx.msgs with
    | error e => rfl
    | ok u =>
      simp only []
      cases ha : ante order .deliver s tx with
      | error e => rfl
      | ok s1 => simp only [runMsgs_wall_eq w1 w2 s1 tx.msgs]
  · unfold govExec
    rw [c01_handle_wall_irrelevant w1 w2 s m]

theorem deliver_wall_eq (w1 w2 : Nat) (n : Node) (tx : Tx) : n.deliver w1 tx = n.deliver w2 tx := by
  unfold Node.deliver
  rw [(c01_wall_clock_irrelevant Facts.anteOrder w1 w2 n.working tx default).1]

theorem endBlock_wall_eq (w1 w2 : Nat) (n : Node) (govs : List (List Msg)) : n.endBlock w1 govs = n.endBlock w2 govs := by
  unfold Node.endBlock
  have h2 : ∀ (govs : List (List Msg)) (acc : State × List Bool),
      govs.foldl (fun (acc : State × List Bool) m => let (s', ok) := govExecAll w1 acc.1 m; (s', acc.2 ++ [ok])) acc =
      govs.foldl (fun (acc : State × List Bool) m => let (s', ok) := govExecAll w2 acc.1 m; (s', acc.2 ++ [ok])) acc := by
    intro govs
    induction govs with
    | nil => intro acc; rfl
    | cons m ms ih => intro acc; simp only [List.foldl_cons, (c01_wall_clock_irrelevant [] w1 w2 acc.1 default default).2.2 m]; exact ih _
  simp only [h2]

/-- … and so is a whole block -/
theorem c01_block_wall_irrelevant (w1 w2 : Nat) (n : Node) (b : Block) : n.runBlock w1 b = n.runBlock w2 b := by
  unfold Node.runBlock
  simp only [deliver_wall_eq w1 w2, endBlock_wall_eq w1 w2]

/-! ### restart safety -/

/-- the steps a node can take inside a block, without committing -/
inductive InBlock : Node → Node → Prop where
  | refl (n : Node) : InBlock n n
  | begin (n n1 n2 : Node) (t : Int) (h : InBlock n n1) (hb : n1.begin t = .ok n2) : InBlock n n2
  | deliver (n n1 : Node) (wall : Nat) (tx : Tx) (h : InBlock n n1) : InBlock n (n1.deliver wall tx).1
  | check (n n1 : Node) (tx : Tx) (h : InBlock n n1) : InBlock n (n1.checkTx tx).1
  | recheck (n n1 : Node) (tx : Tx) (h : InBlock n n1) : InBlock n (n1.recheckTx tx).1
  | endBlock (n n1 : Node) (wall : Nat) (govs : List (List Msg)) (h : InBlock n n1) : InBlock n (n1.endBlock wall govs).1

/-- only Commit changes the committed state -/
theorem c01_only_commit_publishes (n n' : Node) (h : InBlock n n') : n'.committed = n.committed := by
  induction h with
  | refl => rfl
  | begin n1 n2 t _ hb ih =>
    simp only [Node.begin, bind_eq_ok, pure_eq_ok] at hb
    obtain ⟨_, _, rfl⟩ := hb; exact ih
  | deliver n1 wall tx _ ih => exact ih
  | check n1 tx _ ih => exact ih
  | recheck n1 tx _ ih => exact ih
  | endBlock n1 wall govs _ ih => exact ih

theorem runBlock_depends_on_committed_only (n n' : Node) (wall : Nat) (b : Block) (h : n'.committed = n.committed) :
    n'.runBlock wall b = n.runBlock wall b := by
  unfold Node.runBlock Node.begin
  rw [h]
  cases beginBlock Facts.beginBlockSteps { n.committed with time := b.time } with
  | error e => rfl
  | ok s =>
    simp only [bind, Except.bind, pure, Except.pure]
    have h1 : ∀ (txs : List Tx) (a a' : Node), a'.working = a.working →
        (txs.foldl (fun (n : Node) tx => (n.deliver wall tx).1) a').working = (txs.foldl (fun (n : Node) tx => (n.deliver wall tx).1) a).working := by
      intro txs
      induction txs with
      | nil => intro a a' hw; exact hw
      | cons tx txs ih => intro a a' hw; simp only [List.foldl_cons]; exact ih _ _ (by simp [Node.deliver, hw])
    have hw := h1 b.txs { committed := n.committed, working := s, check := n.check } { committed := n.committed, working := s, check := n'.check } rfl
    simp only [Node.endBlock, Node.commit, hw]

/-- **Crash and replay.**  A node that stops at any point inside a block — after BeginBlock, after the
k-th DeliverTx (and any CheckTx in between), after EndBlock — restarts with the last committed state
(`resumes at the last committed height with the last committed hash`), and replaying the interrupted
block yields exactly the node that never stopped. -/
theorem c01_crash_replay (n n' : Node) (h : InBlock n n') (wall : Nat) (b : Block) :
    n'.crash.committed = n.committed ∧ n'.crash.working = n.committed ∧ n'.crash.runBlock wall b = n.runBlock wall b := by
  have hc := c01_only_commit_publishes n n' h
  refine ⟨hc, hc, runBlock_depends_on_committed_only n n'.crash wall b hc⟩

/-- the map-range in `check*MaxSlots` cannot influence the outcome: the check fails iff some entry of the
per-id table exceeds its maximum, whichever entry is visited first -/
theorem c01_slot_check_order_independent (tbl tbl' : List (Nat × (Nat × Nat))) (h : tbl.Perm tbl') :
    tbl.any (fun e => e.2.2 > e.2.1) = tbl'.any (fun e => e.2.2 > e.2.1) := by
  induction h with
  | nil => rfl
  | cons x _ ih => simp [List.any_cons, ih]
  | swap x y l => simp only [List.any_cons]; cases decide (x.2.2 > x.2.1) <;> cases decide (y.2.2 > y.2.1) <;> rfl
  | trans _ _ ih1 ih2 => exact ih1.trans ih2

/-- the sites of the consensus-path packages (x/, ante/, app/, types/; tests, simulation, CLI and generated
code excluded) that read the wall clock, use math/rand, start goroutines or range over a map — regenerated
from the source on every run — are exactly the audited ones: the telemetry timing in the enterprise
BeginBlocker and the dead BEACON fallback; no math/rand; no goroutines; the two slot-check loops (order
independent, above) and two app-wiring helpers that build sets -/
theorem c01_nondeterminism_sites :
    Facts.wallClockSites = [("x/beacon/keeper/msg_server.go", "msgServer.RecordBeaconTimestamp"), ("x/enterprise/abci.go", "BeginBlocker")] ∧
    Facts.randSites = [] ∧ Facts.goStmtSites = [] ∧
    Facts.mapRangeSites = [("app/app.go", "BlockedAddresses"), ("app/app.go", "GetMaccPerms"),
      ("x/beacon/ante/ante.go", "checkBeaconMaxSlots"), ("x/wrkchain/ante/ante.go", "checkWrkChainMaxSlots")] ∧
    -- every early exit of a loop over a map is the same error: the result code cannot depend on the iteration order
    Facts.mapRangeExits = [("x/beacon/ante/ante.go", "checkBeaconMaxSlots", "return ErrExceedsMaxStorage"),
      ("x/wrkchain/ante/ante.go", "checkWrkChainMaxSlots", "return ErrExceedsMaxStorage")] := by
  decide

/-- **The machine that is compared with the application is the machine the theorems are about.**  Whatever script
the compiled model driver (`mdriver`, `Script.step` line by line) is fed — the same lines the harness feeds the real
application — every state of its node (committed, deliver and check state) is a state of the transition system
`Reachable g` of the scenario genesis, provided block times do not go backwards and every genesis round trip in the
script is the identity (which `c15_export_import_identity` proves whenever no registration retains more than
20,000 records).  So every invariant proved for all reachable states holds in every state the correspondence runs
visit, and a disagreement between driver and application is a disagreement with the model the proofs quantify over. -/
theorem c01_driver_stays_inside_the_transition_system (g : GenCfg) (wall : Nat) (lines : List String)
    (hok : ScriptOK g wall {} lines) (n : Node)
    (hn : (lines.foldl (fun (it : Script.Interp) l => (Script.step wall it l).1) {}).node = some n) :
    Reachable g n.committed ∧ Reachable g n.working ∧ Reachable g n.check := by
  have h0 : InterpReach g {} := by intro n hn; cases hn
  have := script_reach g wall lines {} h0 hok n hn
  exact ⟨this.committed, this.working, this.check⟩

end C01
end Mainchain
