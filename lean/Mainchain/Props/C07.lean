import Mainchain.Lemmas.RegistryStable
import Mainchain.Model.Query
/-
C07 — Recorded WRKChain hashes and BEACON timestamps are append-only and tamper-proof.

`FineReach g RegQ s` : `s` is any state of any run from genesis `g` (transactions of every kind,
nested authz, governance, block hooks) in which no 64-bit counter of the two modules has wrapped.
`FinePathQ RegQ s s'` : `s'` is any later state of such a run.
-/
namespace Mainchain
namespace C07
open AL

/-- Once accepted, a record is returned unchanged by every later query until it is pruned; nobody
can alter or replace it, and a pruned record never comes back.  (Both modules; every later state.) -/
theorem c07_records_immutable (g : GenCfg) (hg : GenRegValid g) (s s' : State)
    (hs : FineReach g RegQ s) (hp : FinePathQ RegQ s s') :
    (∀ id k r, find? s.wrk.recs (id, k) = some r →
        find? s'.wrk.recs (id, k) = some r ∨ find? s'.wrk.recs (id, k) = none) ∧
    (∀ id k r, find? s.bcn.recs (id, k) = some r →
        find? s'.bcn.recs (id, k) = some r ∨ find? s'.bcn.recs (id, k) = none) := by
  obtain ⟨hw, hb⟩ := registries_stable g hg s s' hs hp
  have hwi := wrkInv_reachable g hg s (hs.weaken (fun _ h => h.1))
  have hbi := bcnInv_reachable g hg s (hs.weaken (fun _ h => h.2))
  constructor
  · intro id k r hr
    obtain ⟨m, hm, _, hk, _⟩ := hwi.reg.recsBounded id k r hr
    rcases hw.2 id k m hm hk with e | e
    · exact Or.inl (e.trans hr)
    · exact Or.inr e
  · intro id k r hr
    obtain ⟨m, hm, _, hk, _⟩ := hbi.reg.recsBounded id k r hr
    rcases hb.2 id k m hm hk with e | e
    · exact Or.inl (e.trans hr)
    · exact Or.inr e

/-- a key that is absent at or below the last recorded height/id stays absent: pruned or skipped
heights can never be filled in later -/
theorem c07_no_backfill (g : GenCfg) (hg : GenRegValid g) (s s' : State)
    (hs : FineReach g RegQ s) (hp : FinePathQ RegQ s s') (id k : Nat) (m : RegMeta)
    (hm : find? s.wrk.regs id = some m) (hk : k ≤ m.last) (habs : find? s.wrk.recs (id, k) = none) :
    find? s'.wrk.recs (id, k) = none := by
  obtain ⟨hw, _⟩ := registries_stable g hg s s' hs hp
  rcases hw.2 id k m hm hk with e | e
  · exact e.trans habs
  · exact e

/-- A WRKChain accepts a record only for a height strictly above its last recorded height; the
record is stored verbatim (hashes as submitted, height, block time) and becomes the new last. -/
theorem c07_wrk_record_accepts_only_higher (g : GenCfg) (hg : GenRegValid g) (s : State) (hs : FineReach g RegQ s)
    (hq : RegQ s) (now wall id key : Nat) (rc : Rec) (o : AddrTok) (w' : RegState) (k : Nat)
    (h : s.wrk.record now wall id key rc o = .ok (w', k)) :
    ∃ m m', find? s.wrk.regs id = some m ∧ m.last < key ∧ k = key ∧
      find? w'.regs id = some m' ∧ m'.last = key ∧
      find? w'.recs (id, key) = some { rc with key := key, subTime := now } := by
  have hwi := wrkInv_reachable g hg s (hs.weaken (fun _ h => h.1))
  obtain ⟨m, oa, hm, _, _, hk, hgt, hshape⟩ := wrk_record_shape s.wrk now wall id key rc o w' k hwi hq.1 h
  have hid : m.id = id := (hwi.reg.idsBelowNext id m hm).1
  subst hid
  rcases hshape with ⟨_, hlow, rfl⟩ | ⟨_, rfl⟩
  · refine ⟨m, _, hm, hgt, hk, find_insert_eq _ _ _, rfl, ?_⟩
    have hlowle : m.lowest ≤ m.last := by
      have hl := hwi.cnt.lowest _ m hm
      cases hkk : keysOf s.wrk.recs m.id with
      | nil => rw [hkk] at hl; simp at hl; omega
      | cons a as =>
        rw [hkk] at hl; simp at hl
        have := (keys_le_last s.wrk hwi.reg _ m hm a (by rw [hkk]; simp)).2
        omega
    have hne : (m.id, m.lowest) ≠ (m.id, key) := by
      intro e; have := (Prod.mk.inj e).2; omega
    show find? (erase (insertRec s.wrk.recs (m.id, key) (wrkRec rc now key)) (m.id, m.lowest)) (m.id, key) = _
    rw [find_erase_ne _ _ _ hne, find_insertRec_eq]; rfl
  · exact ⟨m, _, hm, hgt, hk, find_insert_eq _ _ _, rfl, find_insertRec_eq _ _ _⟩

/-- BEACON timestamp identifiers are assigned consecutively (previous id + 1, the first one is 1)
in submission order, and the timestamp is stored verbatim (hash and submit time). -/
theorem c07_bcn_ids_consecutive (g : GenCfg) (hg : GenRegValid g) (s : State) (hs : FineReach g RegQ s)
    (hq : RegQ s) (now wall id key : Nat) (rc : Rec) (o : AddrTok) (b' : RegState) (k : Nat)
    (h : s.bcn.record now wall id key rc o = .ok (b', k)) :
    ∃ m m', find? s.bcn.regs id = some m ∧ k = m.last + 1 ∧ find? b'.regs id = some m' ∧ m'.last = k ∧
      find? b'.recs (id, k) = some { key := k, h0 := rc.h0, subTime := if rc.subTime = 0 then wall else rc.subTime } := by
  have hbi := bcnInv_reachable g hg s (hs.weaken (fun _ h => h.2))
  obtain ⟨m, oa, hm, _, _, hk, _, hshape⟩ := bcn_record_shape s.bcn now wall id key rc o b' k hbi hq.2 h
  have hid : m.id = id := (hbi.reg.idsBelowNext id m hm).1
  subst hid
  rcases hshape with ⟨_, hpos, rfl⟩ | ⟨_, rfl⟩
  · obtain ⟨_, hrange⟩ := hbi.cnt.range _ m hm hpos
    have hne : (m.id, m.lowest) ≠ (m.id, k) := by
      intro e; have := (Prod.mk.inj e).2; omega
    refine ⟨m, _, hm, hk, find_insert_eq _ _ _, hk.symm, ?_⟩
    subst hk
    show find? (erase (insertRec s.bcn.recs (m.id, m.last + 1) _) (m.id, m.lowest)) (m.id, m.last + 1) = _
    rw [find_erase_ne _ _ _ hne, find_insertRec_eq]
  · subst hk
    exact ⟨m, _, hm, rfl, find_insert_eq _ _ _, rfl, find_insertRec_eq _ _ _⟩

/-- a freshly registered BEACON starts at last id 0, so its first timestamp gets id 1 -/
theorem c07_bcn_first_id_is_one (s : RegState) (now : Nat) (mk nm gn ty : String) (o : AddrTok) (s' : RegState) (id : Nat)
    (h : s.register now mk nm gn ty o = .ok (s', id)) :
    ∃ m, find? s'.regs id = some m ∧ m.last = 0 ∧ m.num = 0 := by
  simp only [RegState.register, bind_eq_ok, pure_eq_ok, Prod.mk.injEq] at h
  obtain ⟨oa, _, _, _, _, _, _, _, rfl, rfl⟩ := h
  exact ⟨_, find_insert_eq _ _ _, rfl, rfl⟩

/-- rejected submissions change nothing: a failing message yields no new state at all, and a failing
transaction leaves both registries exactly as they were (the ante chain does not touch them) -/
theorem c07_rejected_tx_changes_nothing (wall : Nat) (s : State) (tx : Tx)
    (h : (deliverTx Facts.anteOrder wall s tx).2.outcome ≠ .ok) :
    (deliverTx Facts.anteOrder wall s tx).1.wrk = s.wrk ∧ (deliverTx Facts.anteOrder wall s tx).1.bcn = s.bcn := by
  have hante : ∀ s1, ante Facts.anteOrder .deliver s tx = .ok s1 → s1.wrk = s.wrk ∧ s1.bcn = s.bcn := by
    intro s1 h1
    exact ante_rel (fun a b => b.wrk = a.wrk ∧ b.bcn = a.bcn) (fun _ => ⟨rfl, rfl⟩)
      (fun a b c h1 h2 => ⟨h2.1.trans h1.1, h2.2.trans h1.2⟩) tx
      (fun a b he => by cases he with
        | none hs => subst hs; exact ⟨rfl, rfl⟩
        | unlock _ _ _ _ _ _ hs => subst hs; exact ⟨rfl, rfl⟩
        | deduct _ _ _ _ _ _ hs => subst hs; exact ⟨rfl, rfl⟩) _ _ s s1 h1
  unfold deliverTx at h ⊢
  split
  · exact ⟨rfl, rfl⟩
  · split
    · exact ⟨rfl, rfl⟩
    · split
      · exact ⟨rfl, rfl⟩
      · rename_i s1 h1
        split
        · exact hante s1 h1
        · rename_i s2 rs h2
          simp [deliverTx, *] at h

-- non-vacuity: a concrete accepted record (first timestamp of a fresh BEACON gets id 1)
def exParams : RegParams := { denom := "nund", feeReg := 1, feeRec := 1, feeBuy := 1, defLimit := 2, maxLimit := 3 }
def exMeta : RegMeta :=
  { id := 1, owner := .ok 0 false, moniker := "m", name := "n", genesis := "", type := "", regTime := 5, last := 0, num := 0, lowest := 0 }
def exState : RegState := { kind := .bcn, params := exParams, nextId := 2, regs := [(1, exMeta)], limits := [(1, 2)] }
example : (exState.record 10 0 1 0 { key := 0, h0 := "abc", subTime := 77 } (.ok 0 false)).toOption.map (·.2) = some 1 := by
  decide

/-- the byte limit of every submitted hash in the model is the one the source compares with — regenerated from
`ValidateBasic` (msgs.go) and the message servers of both modules on every run -/
theorem c07_limits_from_source :
    ["wrkchain.msgs.BlockHash.>", "wrkchain.msgs.ParentHash.>", "wrkchain.msgs.Hash1.>", "wrkchain.msgs.Hash2.>", "wrkchain.msgs.Hash3.>",
     "beacon.msgs.Hash.>"].all (fun k => decide (AL.find? Facts.limits k = some maxHashLen)) = true ∧
    -- the message servers repeat the bound of `ValidateBasic`; where they state it literally it is the same number (a helper or
    -- a constant there is not looked into: the `ValidateBasic` bound above is the one every transaction meets first)
    ["wrkchain.msg_server.BlockHash.>", "wrkchain.msg_server.ParentHash.>", "wrkchain.msg_server.Hash1.>", "wrkchain.msg_server.Hash2.>",
     "wrkchain.msg_server.Hash3.>", "beacon.msg_server.Hash.>"].all
      (fun k => decide (AL.find? Facts.limits k = none ∨ AL.find? Facts.limits k = some maxHashLen)) = true := by decide

/-- **The query returns what is stored.**  In every state of every run the point query for a record (`WrkChainBlock`,
`BeaconTimestamp`) answers with exactly the stored record — whatever heights or identifiers were recorded before or after
it, however far apart — and answers "not found" exactly when no such record is held.  (Identifier 0 is never handed out:
the genesis starting ids are validated to be positive; the query refuses it.) -/
theorem c07_query_returns_the_stored_record (g : GenCfg) (hg : GenRegValid g) (s : State) (hs : FineReach g RegQ s)
    (id k : Nat) (h0 : id ≠ 0) :
    (∀ rc, find? s.wrk.recs (id, k) = some rc → ∃ m, Query.regRecord s.wrk id k = some (m, rc)) ∧
    (find? s.wrk.recs (id, k) = none → Query.regRecord s.wrk id k = none) ∧
    (∀ rc, find? s.bcn.recs (id, k) = some rc → ∃ m, Query.regRecord s.bcn id k = some (m, rc)) ∧
    (find? s.bcn.recs (id, k) = none → Query.regRecord s.bcn id k = none) := by
  have hwi := wrkInv_reachable g hg s (hs.weaken (fun _ h => h.1))
  have hbi := bcnInv_reachable g hg s (hs.weaken (fun _ h => h.2))
  have key : ∀ (r : RegState), RegInv r →
      (∀ rc, find? r.recs (id, k) = some rc → ∃ m, Query.regRecord r id k = some (m, rc)) ∧
      (find? r.recs (id, k) = none → Query.regRecord r id k = none) := by
    intro r hi
    constructor
    · intro rc hr
      obtain ⟨m, hm, hk, _, _⟩ := hi.recsBounded id k rc hr
      refine ⟨m, ?_⟩
      have hne : ¬ (id = 0 ∨ k = 0) := by omega
      simp [Query.regRecord, hne, hm, hr]
    · intro hr
      unfold Query.regRecord
      split
      · rfl
      · rw [hr]; split
        · rename_i heq; cases heq
        · rfl
  exact ⟨(key s.wrk hwi.reg).1, (key s.wrk hwi.reg).2, (key s.bcn hbi.reg).1, (key s.bcn hbi.reg).2⟩

end C07
end Mainchain
