import Mainchain.Lemmas.ParamsInv
/-
C16 — Module parameters are always valid and take effect as soon as changed.
The validity rules are written here from the *statement* (`…Spec`), and `validate` (the model of the
code's `Params.Validate`, compared with the real one by `vpure` on every run) is shown to imply them.
-/
namespace Mainchain
namespace C16
open AL

/-- validity rules of the enterprise parameters as the property states them -/
def EntSpec (p : EntParams) : Prop :=
  validDenom p.denom = true ∧ 1 ≤ p.minAccepts ∧ 1 ≤ p.decisionLimit ∧
  (∀ t ∈ p.signers, ∃ a, t.decode = some a) ∧ p.minAccepts ≤ p.signers.length ∧ 1 ≤ p.signers.length

/-- validity rules of the WRKChain / BEACON parameters -/
def RegSpec (p : RegParams) : Prop :=
  validDenom p.denom = true ∧ 1 ≤ p.feeReg ∧ 1 ≤ p.feeRec ∧ 1 ≤ p.feeBuy ∧ 1 ≤ p.defLimit ∧ 1 ≤ p.maxLimit ∧
  p.defLimit ≤ p.maxLimit

/-- validator fee within [0,1] (18-decimal fixed point) -/
def StrSpec (fee : Int) : Prop := 0 ≤ fee ∧ fee ≤ (pow18 : Int)

theorem c16_ent_validate_sound (p : EntParams) (h : p.validate = true) : EntSpec p := by
  simp only [EntParams.validate, Bool.and_eq_true, Bool.not_eq_true', decide_eq_true_eq, decide_eq_false_iff_not,
    List.all_eq_true, Nat.not_lt] at h
  obtain ⟨⟨⟨⟨⟨⟨_, hd⟩, hm⟩, hl⟩, hne⟩, hall⟩, hlen⟩ := h
  refine ⟨hd, by omega, by omega, ?_, hlen, by omega⟩
  intro t ht
  have := hall t ht
  cases hdec : t.decode with
  | none => simp [hdec] at this
  | some a => exact ⟨a, rfl⟩

theorem c16_reg_validate_sound (p : RegParams) (h : p.validate = true) : RegSpec p := by
  simp only [RegParams.validate, Bool.and_eq_true, Bool.not_eq_true', decide_eq_true_eq] at h
  obtain ⟨⟨⟨⟨⟨⟨⟨_, hd⟩, h1⟩, h2⟩, h3⟩, h4⟩, h5⟩, h6⟩ := h
  exact ⟨hd, by omega, by omega, by omega, by omega, by omega, h6⟩

theorem c16_str_validate_sound (fee : Int) (h : streamParamsValid fee = true) : StrSpec fee := by
  simpa [streamParamsValid, StrSpec] using h

/-- **the rules and nothing but the rules**: for a denomination that is not blank (the extra test the code makes first),
`Validate` accepts a WRKChain/BEACON parameter set exactly when it satisfies the validity rules the property lists — so the
soundness theorems above are not about a checker that merely rejects more -/
theorem c16_reg_validate_exact (p : RegParams) (hb : isBlank p.denom = false) : p.validate = true ↔ RegSpec p := by
  constructor
  · exact c16_reg_validate_sound p
  · intro ⟨hd, h1, h2, h3, h4, h5, h6⟩
    simp only [RegParams.validate, hb, hd, Bool.not_false, Bool.true_and, Bool.and_eq_true, decide_eq_true_eq]
    refine ⟨⟨⟨⟨⟨?_, ?_⟩, ?_⟩, ?_⟩, ?_⟩, h6⟩ <;> omega

theorem c16_str_validate_exact (fee : Int) : streamParamsValid fee = true ↔ StrSpec fee := by
  simp [streamParamsValid, StrSpec]

theorem c16_ent_validate_exact (p : EntParams) (hb : isBlank p.denom = false) : p.validate = true ↔ EntSpec p := by
  constructor
  · exact c16_ent_validate_sound p
  · intro ⟨hd, hm, hl, hall, hlen, hne⟩
    simp only [EntParams.validate, hb, hd, Bool.not_false, Bool.true_and, Bool.and_eq_true, decide_eq_true_eq,
      Bool.not_eq_true', decide_eq_false_iff_not, List.all_eq_true, Nat.not_lt]
    refine ⟨⟨⟨⟨?_, ?_⟩, ?_⟩, ?_⟩, hlen⟩
    · omega
    · omega
    · intro he
      obtain ⟨a, ha⟩ := hall AddrTok.empty (by rw [he]; simp)
      simp [AddrTok.decode] at ha
    · intro t ht
      obtain ⟨a, ha⟩ := hall t ht
      simp [ha]

/-- The stored parameters of the enterprise, WRKChain, BEACON and stream modules satisfy their
validity rules in every state of every run (any history of transactions, nested messages,
governance proposals and block hooks).  (`GenGrantsOK`: the genesis document contains no authz grant given by a module
account of the application — such a grant would let its grantee act as that module.) -/
theorem c16_params_always_valid (g : GenCfg) (hg : GenParamsValid g) (hgg : GenGrantsOK g) (s : State) (h : Reachable g s) :
    EntSpec s.ent.params ∧ RegSpec s.wrk.params ∧ RegSpec s.bcn.params ∧ StrSpec s.str.fee := by
  have hp := paramsValid_reachable g hg hgg s h
  exact ⟨c16_ent_validate_sound _ hp.ent, c16_reg_validate_sound _ hp.wrk, c16_reg_validate_sound _ hp.bcn,
    c16_str_validate_sound _ hp.str⟩

/-- An update with any invalid field is rejected as a whole: the handlers fail (so nothing is
stored) unless the complete new parameter set validates, and the authority is the gov module. -/
theorem c16_invalid_update_rejected (wall : Nat) (s s' : State) (r : Resp) (auth : AddrTok) :
    (∀ p, execMsg wall s (.entParams auth p) = .ok (s', r) → p.validate = true ∧ auth = AddrTok.canon Mgov ∧ s'.ent.params = p) ∧
    (∀ k p, execMsg wall s (.regParams k auth p) = .ok (s', r) → p.validate = true ∧ auth = AddrTok.canon Mgov ∧ (s'.reg k).params = p) ∧
    (∀ fee, execMsg wall s (.strParams auth fee) = .ok (s', r) → streamParamsValid fee = true ∧ auth = AddrTok.canon Mgov ∧ s'.str.fee = fee) := by
  refine ⟨?_, ?_, ?_⟩
  · intro p h
    simp only [execMsg, bind_eq_ok, pure_eq_ok, Prod.mk.injEq, requireAuthority, require_eq_ok, decide_eq_true_eq,
      EntState.setParams] at h
    obtain ⟨_, ha, e, ⟨_, hv, rfl⟩, rfl, _⟩ := h
    exact ⟨hv, ha, rfl⟩
  · intro k p h
    simp only [execMsg, bind_eq_ok, pure_eq_ok, Prod.mk.injEq, requireAuthority, require_eq_ok, decide_eq_true_eq,
      RegState.setParams] at h
    obtain ⟨_, ha, e, ⟨_, hv, rfl⟩, rfl, _⟩ := h
    exact ⟨hv, ha, by cases k <;> rfl⟩
  · intro fee h
    simp only [execMsg, bind_eq_ok, pure_eq_ok, Prod.mk.injEq, requireAuthority, require_eq_ok, decide_eq_true_eq] at h
    obtain ⟨_, ha, _, hv, rfl, _⟩ := h
    exact ⟨hv, ha, rfl⟩

/-- **A governance proposal is all or nothing.**  When it fails — its signer is not the gov module account, or any
one of its messages fails, e.g. an invalid parameter update after valid ones — the state is exactly the state
before: no parameter of an earlier message of the same proposal stays behind. -/
theorem c16_failed_proposal_changes_nothing (wall : Nat) (s : State) (msgs : List Msg) :
    (govExecAll wall s msgs).2 = false → (govExecAll wall s msgs).1 = s := by
  unfold govExecAll
  split
  · split
    · intro h; cases h
    · intro _; rfl
  · intro _; rfl

theorem c16_proposal_with_failing_message_fails (wall : Nat) (s : State) (pre : List Msg) (m : Msg) (post : List Msg)
    (s1 : State) (rs : List Resp) (hpre : runMsgs wall s pre = .ok (s1, rs)) (e : Err) (hm : handle wall s1 m = .error e) :
    govExecAll wall s (pre ++ m :: post) = (s, false) := by
  have hrun : runMsgs wall s (pre ++ m :: post) = .error e := by
    unfold runMsgs at hpre ⊢
    rw [List.foldlM_append, hpre]
    simp only [bind, Except.bind, List.foldlM_cons, hm]
  unfold govExecAll
  rw [hrun]
  split <;> rfl

/-- After a successful update every fee check, limit check, quorum tally and fee split is the formula
instantiated at the new values and only the new values: the model reads the parameters from the
state at each use (no cache), so the functions below depend on the state only through `params`. -/
theorem c16_new_values_used (s : State) (p : EntParams) (q : RegParams) (k : RegKind) (now : Nat) (po : PO) (tx : Tx) :
    EntState.tallyDecision ({ s.ent with params := p }).params now po = EntState.tallyDecision p now po ∧
    expectedFee ({ s.reg k with params := q }) k tx.msgs = expectedFee { s.reg k with params := q } k tx.msgs ∧
    ({ s.reg k with params := q } : RegState).maxPurchasable = fun id =>
      (if (({ s.reg k with params := q } : RegState).limitOf id).2 = false then 0
       else if (({ s.reg k with params := q } : RegState).limitOf id).1 ≥ q.maxLimit then 0
       else q.maxLimit - (({ s.reg k with params := q } : RegState).limitOf id).1) := by
  refine ⟨rfl, rfl, ?_⟩
  funext id
  simp only [RegState.maxPurchasable]
  split <;> simp_all

-- non-vacuity and the repaired defect: MinAccepts = 2^64-1 with one signer is now invalid
example : ({ denom := "nund", minAccepts := 18446744073709551615, decisionLimit := 30, signers := [.ok 0 false] } : EntParams).validate = false := by
  decide
example : ({ denom := "nund", minAccepts := 2, decisionLimit := 30, signers := [.ok 0 false, .ok 1 true] } : EntParams).validate = true := by
  decide

end C16
end Mainchain
