import Mainchain.Lemmas.Fees
/-
C06 — WRKChain/BEACON operations are admitted only with the exact parameterised fee.

`checkTx Facts.anteOrder s tx` is mempool admission: the composed ante chain (decorator order
regenerated from ante/ante.go on every run) in check mode on the check state `s`.
-/
namespace Mainchain
namespace C06
open AL

/-- what the composed ante chain of the repository checks for a transaction that contains a
top-level operation of module `k`, when it admits it in check mode — first check or mempool re-check -/
theorem ante_check_runs_fee_decorator (k : RegKind) (mode : Mode) (hmode : mode ≠ .deliver) (s s' : State) (tx : Tx)
    (hk : tx.hasKind k = true) (h : ante Facts.anteOrder mode s tx = .ok s') :
    checkFees (s.reg k) k tx = .ok () ∧ checkPayerFunds s (s.reg k) tx = .ok () ∧ checkMaxSlots (s.reg k) k tx = .ok () :=
  have r := ante_runs_fee_decorator k mode s s' tx hk h
  ⟨r.1 hmode, r.2.1, r.2.2⟩

/-- **Exact fee.**  A transaction with a top-level operation of module `k` is admitted by CheckTx only if
the amount it offers in that module's fee denomination equals exactly the sum, over its top-level
operations of module `k`, of the current registration, record and per-slot storage fees — whatever
other fee denominations accompany it and in whatever order the messages appear. -/
theorem c06_admitted_pays_exact_sum (k : RegKind) (s : State) (tx : Tx) (hk : tx.hasKind k = true)
    (hbuy : 1 ≤ (s.reg k).params.feeBuy) (hp : (s.reg k).params.U64) (hm : ∀ m ∈ tx.msgs, m.U64)
    (h : (checkTx Facts.anteOrder s tx).2.outcome = .ok) :
    Coins.amountOf tx.fee (s.reg k).params.denom = feeSum (s.reg k).params k tx.msgs := by
  unfold checkTx at h
  split at h
  · simp at h
  · split at h
    · rename_i e _; cases e <;> simp [Outcome.ofErr] at h
    · split at h
      · rename_i e _; cases e <;> simp [Outcome.ofErr] at h
      · rename_i s1 h1
        exact (checkFees_exact (s.reg k) k hbuy hp tx hm (ante_check_runs_fee_decorator k .check (by decide) s s1 tx hk h1).1).1

/-- **… also when the mempool is re-validated.**  After every commit CometBFT runs CheckTx of type Recheck on the
pending transactions; the fee decorators run then too, against the parameters in force *now*: a pending transaction
whose fee no longer equals the current sum (governance changed a fee in between) is dropped. -/
theorem c06_recheck_admitted_pays_exact_sum (k : RegKind) (s : State) (tx : Tx) (hk : tx.hasKind k = true)
    (hbuy : 1 ≤ (s.reg k).params.feeBuy) (hp : (s.reg k).params.U64) (hm : ∀ m ∈ tx.msgs, m.U64)
    (h : (recheckTx Facts.anteOrder s tx).2.outcome = .ok) :
    Coins.amountOf tx.fee (s.reg k).params.denom = feeSum (s.reg k).params k tx.msgs := by
  unfold recheckTx at h
  split at h
  · simp at h
  · split at h
    · rename_i e _; cases e <;> simp [Outcome.ofErr] at h
    · split at h
      · rename_i e _; cases e <;> simp [Outcome.ofErr] at h
      · rename_i s1 h1
        exact (checkFees_exact (s.reg k) k hbuy hp tx hm (ante_check_runs_fee_decorator k .recheck (by decide) s s1 tx hk h1).1).1

/-- **Affordability.**  … and only if its fee payer can cover that amount from liquid plus locked funds
(total and spendable balances, each together with the locked eFUND). -/
theorem c06_payer_can_cover (k : RegKind) (s : State) (tx : Tx) (hk : tx.hasKind k = true)
    (h : (checkTx Facts.anteOrder s tx).2.outcome = .ok) :
    ∃ payer, tx.payer = some payer ∧ s.bank.hasAccount payer = true ∧
      (Coins.safeSub (Coins.add (s.bank.allBalances payer) (Coins.ofCoin (s.ent.lockedOf payer)))
        [{ denom := (s.reg k).params.denom, amt := Coins.amountOf tx.fee (s.reg k).params.denom }]).2 = false ∧
      (Coins.safeSub (Coins.add (s.bank.spendable s.nowSec payer) (Coins.ofCoin (s.ent.lockedOf payer)))
        [{ denom := (s.reg k).params.denom, amt := Coins.amountOf tx.fee (s.reg k).params.denom }]).2 = false := by
  unfold checkTx at h
  split at h
  · simp at h
  · split at h
    · rename_i e _; cases e <;> simp [Outcome.ofErr] at h
    · split at h
      · rename_i e _; cases e <;> simp [Outcome.ofErr] at h
      · rename_i s1 h1
        have h2 := (ante_check_runs_fee_decorator k .check (by decide) s s1 tx hk h1).2.1
        simp only [checkPayerFunds, bind_eq_ok, require_eq_ok, Bool.not_eq_true'] at h2
        obtain ⟨payer, hp, _, hacc, _, _, _, _, _, c1, c2⟩ := h2
        refine ⟨payer, ?_, hacc, c1, c2⟩
        unfold Tx.payerM at hp; split at hp <;> simp_all

/-- all WRKChain/BEACON operations a transaction would execute, nested ones included -/
def allOps (k : RegKind) : List Msg → List Msg
  | [] => []
  | .authzExec _ inner :: rest => allOps k inner ++ allOps k rest
  | m :: rest => (if m.isOfKind k then [m] else []) ++ allOps k rest

theorem opFee_zero (p : RegParams) (k : RegKind) (m : Msg) (h : m.isOfKind k = false) : opFee p k m = 0 := by
  cases m with
  | regReg k' a b c d o => cases k' <;> cases k <;> simp_all [opFee, Msg.isOfKind, Msg.isWrk, Msg.isBcn]
  | regRec k' a b c o => cases k' <;> cases k <;> simp_all [opFee, Msg.isOfKind, Msg.isWrk, Msg.isBcn]
  | regBuy k' a b o => cases k' <;> cases k <;> simp_all [opFee, Msg.isOfKind, Msg.isWrk, Msg.isBcn]
  | _ => simp [opFee]

theorem feeSum_filter (p : RegParams) (k : RegKind) (msgs : List Msg) :
    feeSum p k (msgs.filter (Msg.isOfKind k)) = feeSum p k msgs := by
  induction msgs with
  | nil => rfl
  | cons m ms ih =>
    simp only [feeSum, List.map_cons, List.sum_cons] at ih ⊢
    by_cases hm : m.isOfKind k = true
    · simp only [List.filter_cons, hm, if_true, List.map_cons, List.sum_cons, ih]
    · have h0 : opFee p k m = 0 := opFee_zero p k m (by simpa using hm)
      simp only [List.filter_cons, hm, Bool.false_eq_true, if_false, h0, ih]; omega

/-- a transaction whose WRKChain/BEACON operations all sit at the top level and belong to one module -/
def Plain (tx : Tx) : Prop :=
  (∀ k, allOps k tx.msgs = tx.msgs.filter (Msg.isOfKind k)) ∧ ¬ (tx.hasKind .wrk = true ∧ tx.hasKind .bcn = true)

/-- **The full statement, for plain transactions** (`…_partial`: the statement quantifies over every
message combination and nesting; for transactions that mix both modules or wrap operations in
authorisation-exec messages it is FALSE of the code — see the two witnesses below, recorded as known
findings).  For a plain transaction admitted by CheckTx the amount offered in the module's fee
denomination equals exactly the sum over ALL WRKChain/BEACON operations the transaction will execute. -/
theorem c06_exact_fee_partial (k : RegKind) (s : State) (tx : Tx) (hplain : Plain tx) (hk : tx.hasKind k = true)
    (hbuy : 1 ≤ (s.reg k).params.feeBuy) (hp : (s.reg k).params.U64) (hm : ∀ m ∈ tx.msgs, m.U64)
    (h : (checkTx Facts.anteOrder s tx).2.outcome = .ok) :
    Coins.amountOf tx.fee (s.reg k).params.denom = feeSum (s.reg k).params k (allOps k tx.msgs) ∧
    (∀ k', k' ≠ k → allOps k' tx.msgs = []) := by
  refine ⟨?_, ?_⟩
  · rw [hplain.1 k, feeSum_filter]; exact c06_admitted_pays_exact_sum k s tx hk hbuy hp hm h
  · intro k' hne
    rw [hplain.1 k']
    have hnot : tx.hasKind k' = false := by
      cases hk' : tx.hasKind k' with
      | false => rfl
      | true =>
        exfalso; apply hplain.2
        cases k <;> cases k' <;> simp_all
    simp only [Tx.hasKind, List.any_eq_false] at hnot
    exact List.filter_eq_nil_iff.mpr (fun m hm' => by simpa using hnot m hm')

/-! ### the two gaps (known findings), each with a concrete admitted transaction -/

def wGen : GenCfg :=
  { timeSec := 1700000000,
    accts := [{ id := 0, exists_ := true, balance := [{ denom := "nund", amt := 1000000 }], vest := none }],
    ent := { denom := "nund", minAccepts := 1, decisionLimit := 30, signers := [.ok 0 false] },
    wrk := { denom := "nund", feeReg := 24, feeRec := 2, feeBuy := 2, defLimit := 3, maxLimit := 6 },
    bcn := { denom := "nund", feeReg := 24, feeRec := 2, feeBuy := 2, defLimit := 3, maxLimit := 6 } }

def wMixed : Tx :=
  { signers := [0], granter := none, fee := [{ denom := "nund", amt := 24 }], sig := .ok,
    msgs := [.regReg .wrk "mon" "name" "gen" "typ" (.ok 0 false), .regReg .bcn "mon" "name" "" "" (.ok 0 false)] }

def wNested : Tx :=
  { signers := [0], granter := none, fee := [], sig := .ok,
    msgs := [.authzExec (.ok 0 false) [.regReg .wrk "mon" "name" "gen" "typ" (.ok 0 false)]] }

/-- NEGATION of the full statement (1): a transaction registering a WRKChain and a BEACON is admitted
offering one registration fee — each module's decorator compares the fee with its own module's sum. -/
theorem c06_mixed_modules_admitted_with_one_fee :
    (checkTx Facts.anteOrder (initState wGen) wMixed).2.outcome = .ok ∧
    Coins.amountOf wMixed.fee "nund" = 24 ∧
    feeSum wGen.wrk .wrk (allOps .wrk wMixed.msgs) + feeSum wGen.bcn .bcn (allOps .bcn wMixed.msgs) = 48 := by
  refine ⟨by decide +kernel, by decide +kernel, ?_⟩
  simp [wMixed, wGen, allOps, feeSum, opFee, Msg.isOfKind, Msg.isWrk, Msg.isBcn]

/-- NEGATION of the full statement (2): a WRKChain registration wrapped in an authorisation-exec
message is admitted with no fee at all — module transactions are detected by top-level message type. -/
theorem c06_nested_operation_admitted_free :
    (checkTx Facts.anteOrder (initState wGen) wNested).2.outcome = .ok ∧
    wNested.fee = [] ∧ feeSum wGen.wrk .wrk (allOps .wrk wNested.msgs) = 24 := by
  refine ⟨by decide +kernel, rfl, ?_⟩
  simp [wNested, wGen, allOps, feeSum, opFee, Msg.isOfKind, Msg.isWrk, Msg.isBcn]

-- non-vacuity of the positive theorem: an exactly paid plain registration is admitted, an under-paid one
-- accompanied by another denomination is not (the repaired defect)
example : (checkTx Facts.anteOrder (initState wGen)
    { signers := [0], granter := none, fee := [{ denom := "nund", amt := 24 }], sig := .ok,
      msgs := [.regReg .wrk "mon" "name" "gen" "typ" (.ok 0 false)] }).2.outcome = .ok := by decide +kernel
example : (checkTx Facts.anteOrder (initState wGen)
    { signers := [0], granter := none, fee := [{ denom := "btoken", amt := 1 }, { denom := "nund", amt := 5 }], sig := .ok,
      msgs := [.regReg .wrk "mon" "name" "gen" "typ" (.ok 0 false)] }).2.outcome = .err := by decide +kernel

end C06
end Mainchain
