def hello := "world"
