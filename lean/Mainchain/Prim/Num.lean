/-
Fixed-width integer semantics of Go as used by the code base, modelled over `Nat`/`Int`.
-/
namespace Mainchain

def two64 : Nat := 18446744073709551616
def two63 : Nat := 9223372036854775808
def maxI64 : Int := 9223372036854775807
def minI64 : Int := -9223372036854775808
def pow18 : Nat := 1000000000000000000
def nsPerSec : Int := 1000000000

/-- Go `uint64` arithmetic wraps modulo 2^64. -/
def wrapU64 (n : Nat) : Nat := n % two64
/-- `a + b` on `uint64`. -/
def addU64 (a b : Nat) : Nat := wrapU64 (a + b)
/-- `a - b` on `uint64` (wraps below zero). -/
def subU64 (a b : Nat) : Nat := if b ≤ a then a - b else a + two64 - b

/-- wrap an integer into the `int64` range (two's complement). -/
def wrapI64 (x : Int) : Int :=
  let m : Int := x % (two64 : Int)         -- 0 ≤ m < 2^64  (Int.emod is non-negative for positive modulus)
  if m < (two63 : Int) then m else m - (two64 : Int)

/-- `int64(u)` for a `uint64` value `u`. -/
def i64OfU64 (u : Nat) : Int := if u < two63 then (u : Int) else (u : Int) - (two64 : Int)
/-- `uint64(i)` for an `int64` value `i`. -/
def u64OfI64 (i : Int) : Nat := if 0 ≤ i then i.toNat else (i + (two64 : Int)).toNat

def inI64 (x : Int) : Bool := decide (minI64 ≤ x) && decide (x ≤ maxI64)

/-- Go `int(u)` on a 64-bit platform is the same reinterpretation. -/
def intOfU64 (u : Nat) : Int := i64OfU64 u

/-- truncated division toward zero of Go for `int64`/big.Int `Quo` -/
def quoT (a b : Int) : Int := Int.tdiv a b

/-- `Time.Sub` saturates at the `Duration` range. -/
def satDur (x : Int) : Int := if x > maxI64 then maxI64 else if x < minI64 then minI64 else x

/-- `int64(d.Seconds())` for a Duration `d` (nanoseconds): truncation toward zero.
    (The float rounding of `Seconds()` is not modelled: exact for |d| < 2^22 s or zero nanos.) -/
def durSeconds (d : Int) : Int := Int.tdiv d nsPerSec

def bitLen (n : Nat) : Nat := if n = 0 then 0 else Nat.log2 n + 1

end Mainchain
