/-
Association-list finite maps (core Lean only).  Used for every store section of the model.
Keys are unique by construction (`insert` replaces).  Lemmas about them live in
`Mainchain/Lemmas/AList.lean`.
-/
namespace Mainchain
namespace AL

variable {κ : Type} {ν : Type}

def find? [DecidableEq κ] : List (κ × ν) → κ → Option ν
  | [], _ => none
  | (k, v) :: m, x => if k = x then some v else find? m x

def contains [DecidableEq κ] (m : List (κ × ν)) (x : κ) : Bool := (find? m x).isSome

/-- replace in place if present, else append at the end (so ascending ids stay ascending) -/
def insert [DecidableEq κ] : List (κ × ν) → κ → ν → List (κ × ν)
  | [], x, w => [(x, w)]
  | (k, v) :: m, x, w => if k = x then (k, w) :: m else (k, v) :: insert m x w

def erase [DecidableEq κ] : List (κ × ν) → κ → List (κ × ν)
  | [], _ => []
  | (k, v) :: m, x => if k = x then m else (k, v) :: erase m x

def keys (m : List (κ × ν)) : List κ := m.map (·.1)

def sumVals : List (κ × Nat) → Nat
  | [] => 0
  | (_, v) :: m => v + sumVals m

def get [DecidableEq κ] (m : List (κ × Nat)) (x : κ) : Nat := (find? m x).getD 0

/-- store a natural number; zero entries are deleted (bank `setBalance` semantics) -/
def setNat [DecidableEq κ] (m : List (κ × Nat)) (x : κ) (n : Nat) : List (κ × Nat) :=
  if n = 0 then erase m x else insert m x n

end AL

/-- lexicographic order on `(registration id, height / timestamp id)` — the byte order of the store keys -/
def pairLt (a b : Nat × Nat) : Bool := decide (a.1 < b.1) || (decide (a.1 = b.1) && decide (a.2 < b.2))

/-- insertion into a record list kept in ascending store-key order (replaces the entry with the same key) -/
def insertRec {ν : Type} : List ((Nat × Nat) × ν) → (Nat × Nat) → ν → List ((Nat × Nat) × ν)
  | [], x, w => [(x, w)]
  | (k, v) :: m, x, w =>
    if k = x then (k, w) :: m else if pairLt x k then (x, w) :: (k, v) :: m else (k, v) :: insertRec m x w

/-- insertion sort on naturals (structural, so that concrete instances reduce in the kernel) -/
def insertLe (x : Nat) : List Nat → List Nat
  | [] => [x]
  | y :: ys => if x ≤ y then x :: y :: ys else y :: insertLe x ys

def isort : List Nat → List Nat
  | [] => []
  | x :: xs => insertLe x (isort xs)

end Mainchain
