import Mainchain.Model.Registry
import Mainchain.Model.Stream
import Mainchain.Model.Enterprise
import Mainchain.Gen.Facts
/-
Messages, transactions, the composed ante chain (as a fold over `Facts.anteOrder`), message
execution with all-or-nothing semantics, CheckTx/DeliverTx.  Sources: ante/ante.go,
x/{wrkchain,beacon}/ante/ante.go, x/enterprise/ante/ante.go, SDK v0.47.13 baseapp.runTx,
x/auth/ante, x/authz keeper.DispatchActions, x/feegrant.
-/
namespace Mainchain

inductive Msg where
  | entRaise (p : AddrTok) (amt : Int) (denom : String)
  | entDecide (id dec : Nat) (s : AddrTok)
  | entWl (action : Nat) (addr s : AddrTok)
  | entParams (auth : AddrTok) (p : EntParams)
  | regReg (k : RegKind) (moniker name genesis type : String) (o : AddrTok)
  | regRec (k : RegKind) (id key : Nat) (r : Rec) (o : AddrTok)
  | regBuy (k : RegKind) (id n : Nat) (o : AddrTok)
  | regParams (k : RegKind) (auth : AddrTok) (p : RegParams)
  | strCreate (r s : AddrTok) (amt : Int) (denom : String) (rate : Int)
  | strClaim (r s : AddrTok)
  | strTopup (r s : AddrTok) (amt : Int) (denom : String)
  | strRate (r s : AddrTok) (rate : Int)
  | strCancel (r s : AddrTok)
  | strParams (auth : AddrTok) (fee : Int)
  | bankSend (src dst : AddrTok) (coins : Coins)
  | authzGrant (granter grantee : AddrTok) (kind : String)
  | authzRevoke (granter grantee : AddrTok) (kind : String)
  | authzExec (grantee : AddrTok) (msgs : List Msg)
  | feegrantGrant (granter grantee : AddrTok)
  deriving Repr, Inhabited

/-- the protocol's message kind (also the key of an authz grant) -/
def Msg.kind : Msg → String
  | .entRaise .. => "ent.raise" | .entDecide .. => "ent.decide" | .entWl .. => "ent.wl"
  | .entParams .. => "ent.params"
  | .regReg .wrk .. => "wrk.reg" | .regRec .wrk .. => "wrk.rec" | .regBuy .wrk .. => "wrk.buy"
  | .regParams .wrk .. => "wrk.params"
  | .regReg .bcn .. => "bcn.reg" | .regRec .bcn .. => "bcn.rec" | .regBuy .bcn .. => "bcn.buy"
  | .regParams .bcn .. => "bcn.params"
  | .strCreate .. => "str.create" | .strClaim .. => "str.claim" | .strTopup .. => "str.topup"
  | .strRate .. => "str.rate" | .strCancel .. => "str.cancel" | .strParams .. => "str.params"
  | .bankSend .. => "bank.send" | .authzGrant .. => "authz.grant" | .authzRevoke .. => "authz.revoke"
  | .authzExec .. => "authz.exec" | .feegrantGrant .. => "feegrant.grant"

/-- Go type name of the message, as it appears in `Facts.signerField` -/
def Msg.goType : Msg → String
  | .entRaise .. => "enterprise.MsgUndPurchaseOrder"
  | .entDecide .. => "enterprise.MsgProcessUndPurchaseOrder"
  | .entWl .. => "enterprise.MsgWhitelistAddress"
  | .entParams .. => "enterprise.MsgUpdateParams"
  | .regReg .wrk .. => "wrkchain.MsgRegisterWrkChain"
  | .regRec .wrk .. => "wrkchain.MsgRecordWrkChainBlock"
  | .regBuy .wrk .. => "wrkchain.MsgPurchaseWrkChainStateStorage"
  | .regParams .wrk .. => "wrkchain.MsgUpdateParams"
  | .regReg .bcn .. => "beacon.MsgRegisterBeacon"
  | .regRec .bcn .. => "beacon.MsgRecordBeaconTimestamp"
  | .regBuy .bcn .. => "beacon.MsgPurchaseBeaconStateStorage"
  | .regParams .bcn .. => "beacon.MsgUpdateParams"
  | .strCreate .. => "stream.MsgCreateStream"
  | .strClaim .. => "stream.MsgClaimStream"
  | .strTopup .. => "stream.MsgTopUpDeposit"
  | .strRate .. => "stream.MsgUpdateFlowRate"
  | .strCancel .. => "stream.MsgCancelStream"
  | .strParams .. => "stream.MsgUpdateParams"
  | .bankSend .. => "sdk.bank.MsgSend"
  | .authzGrant .. => "sdk.authz.MsgGrant"
  | .authzRevoke .. => "sdk.authz.MsgRevoke"
  | .authzExec .. => "sdk.authz.MsgExec"
  | .feegrantGrant .. => "sdk.feegrant.MsgGrantAllowance"

/-- the address-valued field of a message selected by its Go field name -/
def Msg.field (m : Msg) (name : String) : Option AddrTok :=
  match m, name with
  | .entRaise p _ _, "Purchaser" => some p
  | .entDecide _ _ s, "Signer" => some s
  | .entWl _ _ s, "Signer" => some s
  | .entWl _ a _, "Address" => some a
  | .entParams a _, "Authority" => some a
  | .regReg _ _ _ _ _ o, "Owner" => some o
  | .regRec _ _ _ _ o, "Owner" => some o
  | .regBuy _ _ _ o, "Owner" => some o
  | .regParams _ a _, "Authority" => some a
  | .strCreate _ s _ _ _, "Sender" => some s
  | .strCreate r _ _ _ _, "Receiver" => some r
  | .strClaim _ s, "Sender" => some s
  | .strClaim r _, "Receiver" => some r
  | .strTopup _ s _ _, "Sender" => some s
  | .strTopup r _ _ _, "Receiver" => some r
  | .strRate _ s _, "Sender" => some s
  | .strRate r _ _, "Receiver" => some r
  | .strCancel _ s, "Sender" => some s
  | .strCancel r _, "Receiver" => some r
  | .strParams a _, "Authority" => some a
  | _, _ => none

/-- `GetSigners()[0]` as a token: custom modules from the regenerated `Facts.signerField`,
SDK messages from their fixed definitions. -/
def Msg.signerTok (m : Msg) : Option AddrTok :=
  match m with
  | .bankSend s _ _ => some s
  | .authzGrant g _ _ => some g
  | .authzRevoke g _ _ => some g
  | .authzExec g _ => some g
  | .feegrantGrant g _ => some g
  | _ =>
    match AL.find? Facts.signerField m.goType with
    | some f => m.field f
    | none => none

def Msg.signer (m : Msg) : Option Addr := m.signerTok.bind AddrTok.decode

def Msg.isWrk : Msg → Bool
  | .regReg .wrk .. | .regRec .wrk .. | .regBuy .wrk .. => true
  | _ => false
def Msg.isBcn : Msg → Bool
  | .regReg .bcn .. | .regRec .bcn .. | .regBuy .bcn .. => true
  | _ => false
def Msg.isOfKind (k : RegKind) (m : Msg) : Bool := match k with | .wrk => m.isWrk | .bcn => m.isBcn

structure State where
  bank : Bank
  ent : EntState
  wrk : RegState
  bcn : RegState
  str : StreamState
  grants : List (Addr × Addr × String) := []     -- (granter, grantee, message kind)
  allowances : List (Addr × Addr) := []          -- (granter, grantee)
  time : Int := 0                                -- block time, ns since epoch
  deriving Repr, DecidableEq

namespace State
def nowSec (s : State) : Int := s.time / nsPerSec
/-- `uint64(ctx.BlockTime().Unix())` -/
def nowSecU (s : State) : Nat := u64OfI64 (wrapI64 s.nowSec)
def reg (s : State) : RegKind → RegState | .wrk => s.wrk | .bcn => s.bcn
def setReg (s : State) (k : RegKind) (r : RegState) : State :=
  match k with | .wrk => { s with wrk := r } | .bcn => { s with bcn := r }
end State

/-- module-account name ↦ model address -/
def moduleAddr : String → Option Addr
  | "bonded_tokens_pool" => some Mbond
  | "distribution" => some Mdist
  | "enterprise" => some Ment
  | "fee_collector" => some Mfee
  | "gov" => some Mgov
  | "not_bonded_tokens_pool" => some Mnbond
  | "stream" => some Mstr
  | "transfer" => some Mxfer
  | _ => none

/-- `app.BlockedAddresses()` computed from the regenerated facts -/
def blockedAddrs : List Addr :=
  (Facts.maccPerms.filter (fun e => !Facts.blockedExempt.contains e.1)).filterMap (fun e => moduleAddr e.1)

def isBlocked (a : Addr) : Bool := blockedAddrs.contains a

def modulePerms (name : String) : List String := (AL.find? Facts.maccPerms name).getD []

/-! ### stateless validation (`ValidateBasic`) -/

/-- `Coin.Validate` : valid denom and non-negative amount -/
def coinIsValid (denom : String) (amt : Int) : Bool := validDenom denom && decide (0 ≤ amt)

mutual
def Msg.validateBasic (s : State) : Msg → M Unit
  | .entRaise p amt denom => do
    let _ ← p.decodeM
    require (coinIsValid denom amt) eInvalidCoins
    require (amt ≠ 0) eInvalidCoins
  | .entDecide id dec sg => do
    let _ ← sg.decodeM
    require (id ≠ 0) eUnknownRequest
    require (validAcceptReject dec) (entErr 6)
  | .entWl action a sg => do
    let _ ← sg.decodeM
    let _ ← a.decodeM
    require (validWlAction action) (entErr 8)
  | .entParams auth p => do
    let _ ← auth.decodeM
    require p.validate (.err "undefined" 1)
  | .regReg k moniker name genesis _ o => (s.reg k).vbRegister moniker name genesis o
  | .regRec k id key r o => (s.reg k).vbRecord id key r o
  | .regBuy k id n o => (s.reg k).vbPurchase id n o
  | .regParams _ auth p => do
    let _ ← auth.decodeM
    require p.validate (.err "undefined" 1)
  | .strCreate r sn amt denom rate => vbCreateStream r sn denom amt rate
  | .strClaim r sn => do
    let _ ← r.decodeM
    let _ ← sn.decodeM
  | .strTopup r sn amt _ => do
    let _ ← sn.decodeM
    let _ ← r.decodeM
    require (!coinNotPositive amt) eStrInvalidData
  | .strRate r sn rate => do
    let _ ← sn.decodeM
    let _ ← r.decodeM
    require (1 ≤ rate) eStrInvalidData
  | .strCancel r sn => do
    let _ ← sn.decodeM
    let _ ← r.decodeM
  | .strParams auth fee => do
    let _ ← auth.decodeM
    require (streamParamsValid fee) (.err "undefined" 1)
  | .bankSend src dst coins => do
    let _ ← src.decodeM
    let _ ← dst.decodeM
    require (Coins.isValid coins) eInvalidCoins
    require (!coins.isEmpty) eInvalidCoins
  | .authzGrant g e _ => do
    let _ ← g.decodeM
    let _ ← e.decodeM
    require (g.decode ≠ e.decode) (.err "authz" 2)
  | .authzRevoke g e _ => do
    let _ ← g.decodeM
    let _ ← e.decodeM
    require (g.decode ≠ e.decode) (.err "authz" 2)
  | .authzExec g msgs => do
    let _ ← g.decodeM
    require (!msgs.isEmpty) eInvalidRequest
    Msg.validateBasicList s msgs
  | .feegrantGrant g e => do
    let _ ← g.decodeM
    let _ ← e.decodeM
    require (g ≠ e) eInvalidAddress
def Msg.validateBasicList (s : State) : List Msg → M Unit
  | [] => pure ()
  | m :: ms => do Msg.validateBasic s m; Msg.validateBasicList s ms
end

/-! ### message execution -/

/-- a response field `name=value` of the protocol -/
abbrev Resp := List (String × String)

def liftSB (s : State) (x : SB) : State := { s with str := x.str, bank := x.bank }
def toSB (s : State) : SB := { str := s.str, bank := s.bank }

/-- `MsgUpdateParams` handlers: the authority string must equal the gov module address -/
def requireAuthority (auth : AddrTok) : M Unit := require (auth = AddrTok.canon Mgov) (.err "gov" 8)

def Msg.signerM (m : Msg) : M Addr :=
  match m.signer with
  | some a => .ok a
  | none => .error (.panic "GetSigners")

mutual
/-- the message-server handler of one message (`wall`: wall-clock oracle).  The SDK's message
service router runs `ValidateBasic` before every handler call, top-level or nested: see `handle`
and `dispatch`. -/
def execMsg (wall : Nat) (s : State) : Msg → M (State × Resp)
  | .entRaise p amt denom => do
    let x ← s.ent.raise s.nowSecU p denom amt
    pure ({ s with ent := x.1 }, [("id", toString x.2)])
  | .entDecide id dec sg => do
    let e ← s.ent.decide_ s.nowSecU id dec sg
    pure ({ s with ent := e }, [])
  | .entWl action a sg => do
    let e ← s.ent.whitelistMsg action a sg
    pure ({ s with ent := e }, [])
  | .entParams auth p => do
    requireAuthority auth
    let e ← s.ent.setParams p
    pure ({ s with ent := e }, [])
  | .regReg k moniker name genesis type o => do
    let x ← (s.reg k).register s.nowSecU moniker name genesis type o
    pure (s.setReg k x.1, [("id", toString x.2)])
  | .regRec k id key rc o => do
    let x ← (s.reg k).record s.nowSecU wall id key rc o
    pure (s.setReg k x.1, match k with | .wrk => [] | .bcn => [("tsid", toString x.2)])
  | .regBuy k id n o => do
    let x ← (s.reg k).purchase id n o
    pure (s.setReg k x.1, [("can", toString x.2)])
  | .regParams k auth p => do
    requireAuthority auth
    let r ← (s.reg k).setParams p
    pure (s.setReg k r, [])
  | .strCreate r sn amt denom rate => do
    let x ← createStream (toSB s) s.time isBlocked r sn denom amt rate
    pure (liftSB s x, [])
  | .strClaim r sn => do
    let x ← claimStream (toSB s) s.time isBlocked r sn
    pure (liftSB s x.1, [("total", toString x.2.total), ("pay", toString x.2.pay), ("fee", toString x.2.fee), ("rem", toString x.2.rem)])
  | .strTopup r sn amt denom => do
    let x ← topUpDeposit (toSB s) s.time isBlocked r sn denom amt
    pure (liftSB s x.1, [("dep", toString x.2.1), ("zero", toString x.2.2)])
  | .strRate r sn rate => do
    let x ← updateFlowRate (toSB s) s.time isBlocked r sn rate
    pure (liftSB s x, [])
  | .strCancel r sn => do
    let x ← cancelStreamMsg (toSB s) s.time isBlocked r sn
    pure (liftSB s x, [])
  | .strParams auth fee => do
    requireAuthority auth
    require (streamParamsValid fee) (.err "undefined" 1)
    pure ({ s with str := { s.str with fee := fee } }, [])
  | .bankSend src dst coins => do
    let a ← src.decodeM
    let b ← dst.decodeM
    require (!isBlocked b) eUnauthorized
    let bank ← s.bank.sendCoins s.nowSec a b coins
    pure ({ s with bank := bank }, [])
  | .authzGrant g e kind => do
    let ga ← g.decodeM
    let ea ← e.decodeM
    pure ({ s with bank := s.bank.ensureAccount ea
                   grants := if s.grants.contains (ga, ea, kind) then s.grants else s.grants ++ [(ga, ea, kind)] }, [])
  | .authzRevoke g e kind => do
    let ga ← g.decodeM
    let ea ← e.decodeM
    require (s.grants.contains (ga, ea, kind)) (.err "authz" 2)
    pure ({ s with grants := s.grants.filter (· ≠ (ga, ea, kind)) }, [])
  | .authzExec g msgs => do
    let grantee ← g.decodeM
    let s' ← dispatch wall grantee s msgs
    pure (s', [])
  | .feegrantGrant g e => do
    let ga ← g.decodeM
    let ea ← e.decodeM
    require (!s.allowances.contains (ga, ea)) (.err "feegrant" 2)
    pure ({ s with bank := s.bank.ensureAccount ea, allowances := s.allowances ++ [(ga, ea)] }, [])
/-- `authz` `DispatchActions` -/
def dispatch (wall : Nat) (grantee : Addr) (s : State) : List Msg → M State
  | [] => pure s
  | m :: ms => do
    let granter ← m.signerM
    require (granter = grantee || s.grants.contains (granter, grantee, m.kind)) (.err "authz" 2)
    Msg.validateBasic s m
    let x ← execMsg wall s m
    dispatch wall grantee x.1 ms
end

/-- `MsgServiceRouter` handler: `ValidateBasic`, then the message server -/
def handle (wall : Nat) (s : State) (m : Msg) : M (State × Resp) := do
  Msg.validateBasic s m
  execMsg wall s m

/-- `runMsgs` : all messages or none; responses indexed by message position -/
def runMsgs (wall : Nat) (s : State) (msgs : List Msg) : M (State × List Resp) :=
  msgs.foldlM (fun (acc : State × List Resp) m => do
    let (s', r) ← handle wall acc.1 m
    pure (s', acc.2 ++ [r])) (s, [])

/-! ### transactions and the ante chain -/

inductive SigFlag where | ok | badkey | badseq
  deriving DecidableEq, Repr, Inhabited

structure Tx where
  signers : List Addr           -- the accounts whose keys sign, in order
  granter : Option Addr
  /-- `AuthInfo.Fee.Payer` when set: that account pays the fee (and must sign too) instead of the first signer -/
  feePayer : Option Addr := none
  fee : Coins
  sig : SigFlag
  msgs : List Msg
  deriving Repr, Inhabited

/-- `recheck` : CheckTx of type Recheck — the mempool re-validation CometBFT runs after every commit -/
inductive Mode where | check | deliver | recheck
  deriving DecidableEq, Repr

def dedup : List Addr → List Addr
  | [] => []
  | a :: as => let r := dedup as; if r.contains a then a :: r.filter (· ≠ a) else a :: r

/-- `tx.GetSigners()` : signers of the top-level messages, first occurrence order -/
def Tx.msgSigners (tx : Tx) : List Addr :=
  (tx.msgs.filterMap Msg.signer).foldl (fun acc a => if acc.contains a then acc else acc ++ [a]) []

/-- … followed by the explicit fee payer, if one is set and is not among them -/
def Tx.required (tx : Tx) : List Addr :=
  match tx.feePayer with
  | some p => if tx.msgSigners.contains p then tx.msgSigners else tx.msgSigners ++ [p]
  | none => tx.msgSigners

/-- `tx.FeePayer()` : the explicit fee payer, else the first signer -/
def Tx.payer (tx : Tx) : Option Addr :=
  match tx.feePayer with
  | some p => some p
  | none => tx.msgSigners.head?

def Tx.hasKind (tx : Tx) (k : RegKind) : Bool := tx.msgs.any (Msg.isOfKind k)

/-- `sdk.NewInt64Coin(denom, int64(fee))` : panics on an invalid denom or a negative amount -/
def newInt64Coin (denom : String) (fee : Nat) : M Coin := do
  require (validDenom denom) (.panic "invalid denom")
  require (0 ≤ i64OfU64 fee) (.panic "negative coin amount")
  pure { denom := denom, amt := i64OfU64 fee }

/-- the fee the code expects for one top-level message of module `k` (zero for other messages) -/
def msgFee (r : RegState) (k : RegKind) (acc : Coin) : Msg → M Coin
  | .regReg k' .. => if k' = k then do coinAdd acc (← newInt64Coin r.params.denom r.params.feeReg) else .ok acc
  | .regRec k' .. => if k' = k then do coinAdd acc (← newInt64Coin r.params.denom r.params.feeRec) else .ok acc
  | .regBuy k' _ n _ =>
    if k' = k then do
      let perSlot ← newInt64Coin r.params.denom r.params.feeBuy
      require (0 ≤ perSlot.amt * i64OfU64 n) (.panic "negative coin amount")
      coinAdd acc { denom := perSlot.denom, amt := perSlot.amt * i64OfU64 n }
    else .ok acc
  | _ => .ok acc

/-- expected fee of the module-`k` messages at the top level of the tx (`check*Fees`) -/
def expectedFee (r : RegState) (k : RegKind) (msgs : List Msg) : M Coin := do
  let zero ← newInt64Coin r.params.denom 0
  msgs.foldlM (msgFee r k) zero

/-- `check*Fees` (CheckTx only) -/
def checkFees (r : RegState) (k : RegKind) (tx : Tx) : M Unit := do
  -- GetZeroFeeAsCoin is evaluated first
  let _ ← newInt64Coin r.params.denom 0
  require (tx.fee.any (·.denom = r.params.denom)) (r.mErr 9)
  let expected ← expectedFee r k tx.msgs
  -- the amount offered in the module's fee denomination must equal the expected amount exactly
  require (!decide (Coins.amountOf tx.fee r.params.denom < expected.amt)) (r.mErr 10)
  require (!decide (Coins.amountOf tx.fee r.params.denom > expected.amt)) (r.mErr 11)

def Tx.payerM (tx : Tx) : M Addr :=
  match tx.payer with
  | some a => .ok a
  | none => .error (.panic "no signers")

/-- `checkFeePayerHasFunds` -/
def checkPayerFunds (s : State) (r : RegState) (tx : Tx) : M Unit := do
  let payer ← tx.payerM
  require (s.bank.hasAccount payer) eUnknownAddress
  require (Coins.isValid tx.fee) eInvalidCoins
  let lockedCoins := Coins.ofCoin (s.ent.lockedOf payer)
  let d := r.params.denom
  -- `_, fee := fees.Find(denom)` : zero-value Coin when absent ⇒ nil dereference in SafeSub
  require (tx.fee.any (·.denom = d)) (.panic "nil pointer dereference")
  let fee : Coins := [{ denom := d, amt := Coins.amountOf tx.fee d }]
  require (!(Coins.safeSub (Coins.add (s.bank.allBalances payer) lockedCoins) fee).2) eInsufficientFunds
  require (!(Coins.safeSub (Coins.add (s.bank.spendable s.nowSec payer) lockedCoins) fee).2) eInsufficientFunds

/-- the per-id (max, want) table built by `check*MaxSlots` -/
def slotTable (r : RegState) (k : RegKind) (msgs : List Msg) : List (Nat × (Nat × Nat)) :=
  msgs.foldl (fun acc m =>
    match m with
    | .regBuy k' id n _ =>
      if k' = k then
        match AL.find? acc id with
        | some (mx, want) =>
          if want = 0 then AL.insert acc id (r.maxPurchasable id, n)
          else AL.insert acc id (mx, addU64 want n)
        | none => AL.insert acc id (r.maxPurchasable id, n)
      else acc
    | _ => acc) []

/-- `check*MaxSlots` -/
def checkMaxSlots (r : RegState) (k : RegKind) (tx : Tx) : M Unit :=
  require (!(slotTable r k tx.msgs).any (fun e => e.2.2 > e.2.1)) (r.mErr 8)

/-- `Correct{WrkChain,Beacon}FeeDecorator` -/
def feeDecorator (k : RegKind) (mode : Mode) (s : State) (tx : Tx) : M State :=
  if !tx.hasKind k then .ok s else do
    (if mode ≠ .deliver then checkFees (s.reg k) k tx else .ok ())   -- `ctx.IsCheckTx()` holds for New and Recheck
    checkPayerFunds s (s.reg k) tx
    checkMaxSlots (s.reg k) k tx
    pure s

/-- `CheckLockedUndDecorator` -/
def unlockDecorator (s : State) (tx : Tx) : M State := do
  let payer ← tx.payerM
  if (tx.hasKind .wrk || tx.hasKind .bcn) && s.ent.isLocked payer then do
    let x ← EB.unlockForFees { ent := s.ent, bank := s.bank } s.nowSec payer tx.fee
    pure { s with ent := x.ent, bank := x.bank }
  else pure s

/-- who pays: the fee granter when set (needs an allowance unless it is the payer itself) -/
def feeSource (s : State) (tx : Tx) (payer : Addr) : M Addr :=
  match tx.granter with
  | none => .ok payer
  | some g => do
    require (g = payer || s.allowances.contains (g, payer)) (.err "feegrant" 5)
    pure g

/-- bank errors of `DeductFees` are wrapped as insufficient funds; panics stay panics -/
def asInsufficientFunds {α : Type} : M α → M α
  | .ok v => .ok v
  | .error (.panic w) => .error (.panic w)
  | .error _ => .error eInsufficientFunds

/-- `DeductFeeDecorator` -/
def deductFee (s : State) (tx : Tx) : M State := do
  let payer ← tx.payerM
  let src ← feeSource s tx payer
  require (s.bank.hasAccount src) eUnknownAddress
  if Coins.isZero tx.fee then pure s else do
    require (Coins.isValid tx.fee) eInsufficientFee
    let b ← asInsufficientFunds (s.bank.sendCoins s.nowSec src Mfee tx.fee)
    pure { s with bank := b }

/-- `ValidateBasicDecorator` (tx level): one signature per required signer -/
def stepValidateBasic (s : State) (tx : Tx) : M State := do
  require (tx.signers.length = tx.required.length) eUnauthorized
  require (!tx.required.isEmpty) eInvalidRequest
  pure s

/-- addresses for which somebody can hold a signing key: the scenario accounts.  Module account
addresses are hashes of module names; producing a key for one is a hash pre-image (cryptographic
assumption, recorded in the trusted base). -/
def isUserAddr (a : Addr) : Bool := decide (a < 1000)

/-- `SetPubKeyDecorator` : signer_infos must carry the required signers' keys (so every required
signer is an address somebody holds a key for); accounts must exist -/
def stepSetPubKey (s : State) (tx : Tx) : M State := do
  require (tx.signers = tx.required) (sdkErr 8)
  require (tx.required.all isUserAddr) (sdkErr 8)
  require (tx.required.all s.bank.hasAccount) eUnknownAddress
  pure s

/-- `SigVerificationDecorator` (cryptography abstracted to the script's flag) -/
def stepSigVerification (s : State) (tx : Tx) : M State := do
  require (tx.required.all s.bank.hasAccount) eUnknownAddress
  match tx.sig with
  | .ok => pure s
  | .badkey => .error eUnauthorized
  | .badseq => .error eWrongSequence

/-- `ValidateBasicDecorator` and `SigVerificationDecorator` return at once when the context is a recheck -/
def stepValidateBasicR (mode : Mode) (s : State) (tx : Tx) : M State :=
  if mode = .recheck then .ok s else stepValidateBasic s tx

def stepSigVerificationR (mode : Mode) (s : State) (tx : Tx) : M State :=
  if mode = .recheck then .ok s else stepSigVerification s tx

/-- one ante step by its decorator name (from `Facts.anteOrder`); `none` = unknown decorator -/
def anteStep (name : String) : Option (Mode → State → Tx → M State) :=
  match name with
  | "SetUpContext" | "ExtensionOptions" | "TxTimeoutHeight" | "ValidateMemo" | "ConsumeGasForTxSize"
  | "ValidateSigCount" | "SigGasConsume" | "RedundantRelay" | "IncrementSequence" =>
    some (fun _ s _ => .ok s)
  | "ValidateBasic" => some (fun mode s tx => stepValidateBasicR mode s tx)
  | "CorrectWrkChainFee" => some (fun mode s tx => feeDecorator .wrk mode s tx)
  | "CorrectBeaconFee" => some (fun mode s tx => feeDecorator .bcn mode s tx)
  | "CheckLockedUnd" => some (fun _ s tx => unlockDecorator s tx)
  | "DeductFee" => some (fun _ s tx => deductFee s tx)
  | "SetPubKey" => some (fun _ s tx => stepSetPubKey s tx)
  | "SigVerification" => some (fun mode s tx => stepSigVerificationR mode s tx)
  | _ => none

def anteStepM (mode : Mode) (tx : Tx) (s : State) (name : String) : M State :=
  match anteStep name with
  | some f => f mode s tx
  | none => .error (.panic s!"unknown ante decorator {name}")

/-- the composed ante handler: a fold over the regenerated decorator order -/
def ante (order : List String) (mode : Mode) (s : State) (tx : Tx) : M State :=
  order.foldlM (anteStepM mode tx) s

inductive Outcome where | ok | err | panic
  deriving DecidableEq, Repr, Inhabited

def Outcome.ofErr : Err → Outcome
  | .err .. => .err
  | .panic .. => .panic

structure TxResult where
  outcome : Outcome
  code : String := ""
  resps : List Resp := []
  deriving Repr, Inhabited

def errCode : Err → String
  | .err cs c => s!"{cs}:{c}"
  | .panic _ => "sdk:111222"

/-- `BaseApp.runTx` in deliver mode: validate-basic, ante on a branch (kept iff the whole chain
succeeds), then all messages on a branch (kept iff every message succeeds). -/
def deliverTx (order : List String) (wall : Nat) (s : State) (tx : Tx) : State × TxResult :=
  if tx.msgs.isEmpty then (s, { outcome := .err, code := "sdk:18" }) else
  match Msg.validateBasicList s tx.msgs with
  | .error e => (s, { outcome := .ofErr e, code := errCode e })
  | .ok _ =>
    match ante order .deliver s tx with
    | .error e => (s, { outcome := .ofErr e, code := errCode e })
    | .ok s1 =>
      match runMsgs wall s1 tx.msgs with
      | .error e => (s1, { outcome := .ofErr e, code := errCode e })
      | .ok (s2, rs) => (s2, { outcome := .ok, code := "0", resps := rs })

/-- `BaseApp.runTx` in check mode: ante only, on the check state -/
def checkTx (order : List String) (s : State) (tx : Tx) : State × TxResult :=
  if tx.msgs.isEmpty then (s, { outcome := .err, code := "sdk:18" }) else
  match Msg.validateBasicList s tx.msgs with
  | .error e => (s, { outcome := .ofErr e, code := errCode e })
  | .ok _ =>
    match ante order .check s tx with
    | .error e => (s, { outcome := .ofErr e, code := errCode e })
    | .ok s1 => (s1, { outcome := .ok, code := "0" })

/-- `BaseApp.runTx` in recheck mode: as check mode, with the ante decorators that skip a recheck skipped -/
def recheckTx (order : List String) (s : State) (tx : Tx) : State × TxResult :=
  if tx.msgs.isEmpty then (s, { outcome := .err, code := "sdk:18" }) else
  match Msg.validateBasicList s tx.msgs with
  | .error e => (s, { outcome := .ofErr e, code := errCode e })
  | .ok _ =>
    match ante order .recheck s tx with
    | .error e => (s, { outcome := .ofErr e, code := errCode e })
    | .ok s1 => (s1, { outcome := .ok, code := "0" })

/-- a governance proposal message executed by the gov module in EndBlock (cached: all or nothing) -/
def govExec (wall : Nat) (s : State) (m : Msg) : State × Bool :=
  -- x/gov accepts a proposal message only if its signer is the gov module account
  if m.signer ≠ some Mgov then (s, false) else
  match handle wall s m with
  | .ok (s', _) => (s', true)
  | .error _ => (s, false)

/-- a governance proposal carrying several messages: x/gov accepts it only if the gov module account is the signer
of every message, and executes the messages in order on a cached context — all or nothing -/
def govExecAll (wall : Nat) (s : State) (msgs : List Msg) : State × Bool :=
  if msgs.all (fun m => decide (m.signer = some Mgov)) then
    match runMsgs wall s msgs with
    | .ok (s', _) => (s', true)
    | .error _ => (s, false)
  else (s, false)

/-- `MsgSubmitProposal` accepts the proposal at all: every message passes its stateless validation and names the gov
module account as its only signer (otherwise the proposal never exists and nothing is voted on) -/
def govSubmitOK (s : State) (msgs : List Msg) : Bool :=
  msgs.all (fun m => decide (m.signer = some Mgov)) &&
  (match Msg.validateBasicList s msgs with | .ok _ => true | .error _ => false)

/-- one statement of the enterprise `BeginBlocker` by the name of the keeper method it calls -/
def beginStep (s : State) (name : String) : M State :=
  match name with
  | "ProcessAcceptedPurchaseOrders" => do
    let x ← EB.processAccepted { ent := s.ent, bank := s.bank } s.nowSec isBlocked
    pure { s with ent := x.ent, bank := x.bank }
  | "TallyPurchaseOrderDecisions" => do
    let e ← s.ent.tally s.nowSecU
    pure { s with ent := e }
  | _ => .error (.panic s!"unknown begin-block step {name}")

/-- `BeginBlock` of the enterprise module: a fold over the regenerated statement order -/
def beginBlock (steps : List String) (s : State) : M State := steps.foldlM beginStep s

end Mainchain
