import Mainchain.Model.Types
/-
"bank-lite": the part of x/bank + x/auth (+ delayed vesting accounts) of SDK v0.47.13 that the four
custom modules and the ante chain touch.  Modelled, not verified (validated by the correspondence
runs); see DESIGN.md §10.
-/
namespace Mainchain

/-- delayed vesting account bookkeeping (`BaseVestingAccount`) -/
structure Vest where
  orig : Coins
  endTime : Int            -- unix seconds
  delVesting : Coins := []
  delFree : Coins := []
  deriving Repr, DecidableEq

structure Bank where
  bal : List ((Addr × String) × Nat) := []
  supply : List (String × Nat) := []
  vest : List (Addr × Vest) := []
  accts : List Addr := []          -- addresses for which an account object exists
  deriving Repr, DecidableEq

namespace Bank

def balOf (b : Bank) (a : Addr) (d : String) : Nat := AL.get b.bal (a, d)

def sortCoins (cs : Coins) : Coins := cs.foldl (fun acc c => Coins.insertSorted c acc) []

/-- `GetAllBalances` : sorted, positive entries only -/
def allBalances (b : Bank) (a : Addr) : Coins :=
  sortCoins ((b.bal.filter (fun e => e.1.1 = a ∧ e.2 ≠ 0)).map (fun e => { denom := e.1.2, amt := (e.2 : Int) }))

def supplyOf (b : Bank) (d : String) : Nat := AL.get b.supply d

def hasAccount (b : Bank) (a : Addr) : Bool := b.accts.contains a

def ensureAccount (b : Bank) (a : Addr) : Bank :=
  if b.accts.contains a then b else { b with accts := b.accts ++ [a] }

/-- pointwise minimum of two coin sets over the denoms of the first -/
def coinsMin (a b : Coins) : Coins :=
  (a.map (fun c => { c with amt := min c.amt (Coins.amountOf b c.denom) })).filter (·.amt ≠ 0)

/-- `LockedCoins(ctx, addr)` at block time `nowSec` (unix seconds) -/
def lockedCoins (b : Bank) (nowSec : Int) (a : Addr) : Coins :=
  match AL.find? b.vest a with
  | none => []
  | some v =>
    let vesting : Coins := if nowSec ≥ v.endTime then [] else v.orig
    (Coins.safeSub vesting (coinsMin vesting v.delVesting)).1

/-- `SpendableCoins` : all balances minus locked; empty when any denomination would go negative -/
def spendable (b : Bank) (nowSec : Int) (a : Addr) : Coins :=
  let (s, neg) := Coins.safeSub (allBalances b a) (lockedCoins b nowSec a)
  if neg then [] else s

def setBal (b : Bank) (a : Addr) (d : String) (n : Nat) : Bank :=
  { b with bal := AL.setNat b.bal (a, d) n }

/-- `subUnlockedCoins` for one coin, given the locked coins of the account -/
def subUnlockedCoin (locked : Coins) (a : Addr) (b : Bank) (c : Coin) : M Bank := do
  let balance : Int := b.balOf a c.denom
  require (Coins.amountOf locked c.denom ≤ balance) eInsufficientFunds
  require (c.amt ≤ balance - Coins.amountOf locked c.denom) eInsufficientFunds
  pure (b.setBal a c.denom (balance - c.amt).toNat)

/-- `subUnlockedCoins` -/
def subUnlocked (b : Bank) (nowSec : Int) (a : Addr) (amt : Coins) : M Bank := do
  require (Coins.isValid amt) eInvalidCoins
  amt.foldlM (subUnlockedCoin (lockedCoins b nowSec a) a) b

def addCoin (a : Addr) (b : Bank) (c : Coin) : M Bank := do
  require (fitsInt256 (b.balOf a c.denom + c.amt)) (.panic "Int overflow")
  pure (b.setBal a c.denom ((b.balOf a c.denom : Int) + c.amt).toNat)

/-- `addCoins` -/
def addCoins (b : Bank) (a : Addr) (amt : Coins) : M Bank := do
  require (Coins.isValid amt) eInvalidCoins
  amt.foldlM (addCoin a) b

/-- `SendCoins` (creates the recipient account when missing) -/
def sendCoins (b : Bank) (nowSec : Int) (src dst : Addr) (amt : Coins) : M Bank := do
  let b ← subUnlocked b nowSec src amt
  let b ← addCoins b dst amt
  pure (b.ensureAccount dst)

def addSupply (b : Bank) (c : Coin) : M Bank := do
  require (fitsInt256 (b.supplyOf c.denom + c.amt)) (.panic "Int overflow")
  pure { b with supply := AL.setNat b.supply c.denom ((b.supplyOf c.denom : Int) + c.amt).toNat }

/-- `MintCoins` into a module account holding the Minter permission -/
def mint (b : Bank) (module : Addr) (amt : Coins) : M Bank := do
  let b ← addCoins b module amt
  amt.foldlM addSupply b

/-- `BaseVestingAccount.TrackDelegation` for one coin -/
def trackDelegationCoin (v : Vest) (vesting : Coins) (c : Coin) : Vest :=
  let vestingAmt := Coins.amountOf vesting c.denom
  let delVestingAmt := Coins.amountOf v.delVesting c.denom
  let x := min (max (vestingAmt - delVestingAmt) 0) c.amt
  let y := c.amt - x
  { v with
    delVesting := if x ≠ 0 then Coins.add v.delVesting [{ denom := c.denom, amt := x }] else v.delVesting
    delFree := if y ≠ 0 then Coins.add v.delFree [{ denom := c.denom, amt := y }] else v.delFree }

def takeCoin (a : Addr) (b : Bank) (c : Coin) : M Bank := do
  require (c.amt ≤ (b.balOf a c.denom : Int)) eInsufficientFunds
  pure (b.setBal a c.denom ((b.balOf a c.denom : Int) - c.amt).toNat)

/-- vesting bookkeeping of a delegation (no effect for base accounts) -/
def trackDelegation (b : Bank) (nowSec : Int) (delegator : Addr) (amt : Coins) : Bank :=
  match AL.find? b.vest delegator with
  | none => b
  | some v =>
    let vesting : Coins := if nowSec ≥ v.endTime then [] else v.orig
    { b with vest := AL.insert b.vest delegator (amt.foldl (fun v c => trackDelegationCoin v vesting c) v) }

/-- `DelegateCoins(delegator → module)` -/
def delegate (b : Bank) (nowSec : Int) (delegator module : Addr) (amt : Coins) : M Bank := do
  require (Coins.isValid amt) eInvalidCoins
  let b ← amt.foldlM (takeCoin delegator) b
  addCoins (b.trackDelegation nowSec delegator amt) module amt

/-- `BaseVestingAccount.TrackUndelegation` for one coin -/
def trackUndelegationCoin (v : Vest) (c : Coin) : Vest :=
  let delegatedFree := Coins.amountOf v.delFree c.denom
  let delegatedVesting := Coins.amountOf v.delVesting c.denom
  let x := min delegatedFree c.amt
  let y := min delegatedVesting (c.amt - x)
  { v with
    delFree := if x ≠ 0 then (Coins.safeSub v.delFree [{ denom := c.denom, amt := x }]).1 else v.delFree
    delVesting := if y ≠ 0 then (Coins.safeSub v.delVesting [{ denom := c.denom, amt := y }]).1 else v.delVesting }

def trackUndelegation (b : Bank) (delegator : Addr) (amt : Coins) : Bank :=
  match AL.find? b.vest delegator with
  | none => b
  | some v => { b with vest := AL.insert b.vest delegator (amt.foldl trackUndelegationCoin v) }

/-- `UndelegateCoins(module → delegator)` -/
def undelegate (b : Bank) (nowSec : Int) (module delegator : Addr) (amt : Coins) : M Bank := do
  require (Coins.isValid amt) eInvalidCoins
  let b ← subUnlocked b nowSec module amt
  addCoins (b.trackUndelegation delegator amt) delegator amt

/-- Σ over all accounts of the balance in denomination `d` -/
def totalOf (b : Bank) (d : String) : Nat :=
  AL.sumVals (b.bal.filter (fun e => e.1.2 = d))

end Bank
end Mainchain
