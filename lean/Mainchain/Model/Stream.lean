import Mainchain.Model.Bank
/-
x/stream : pure arithmetic of types/utils.go with Go's fixed-width semantics, and the keeper /
message-server state machine of keeper/{stream,msg_server}.go over bank-lite.
Times are total nanoseconds since the Unix epoch (`Int`).
-/
namespace Mainchain

/-- `sdk.Dec` as the 18-decimal scaled integer -/
abbrev Dec18 := Int

def maxDecBitLen : Nat := 315

/-- `types.MaxDurationSeconds` = MaxInt64 / 10^9 : the longest duration expressible as a `time.Duration` -/
def maxDurationSeconds : Int := 9223372036

/-- `CalculateDuration(deposit, flowRate)` : `floor(deposit / flowRate)` in `sdk.Int`, saturating at
MaxInt64 when the quotient does not fit an int64. -/
def calcDuration (deposit : Int) (flowRate : Int) : Int :=
  if flowRate ≤ 0 then 0
  else if deposit > 0 then
    let q : Int := deposit / flowRate
    if inI64 q then q else maxI64
  else 0

/-- `CalculateAmountToClaim(now, zero, last, deposit, rate)` → (amountToClaim, remaining) -/
def calcAmountToClaim (now zero last : Int) (deposit : Int) (rate : Int) : Int × Int :=
  if now ≥ zero then (deposit, 0)
  else
    let timeSinceLast := satDur (now - last)
    let secondsSinceLast := max (durSeconds timeSinceLast) 0
    let amountToClaim : Int := secondsSinceLast * rate
    if deposit > amountToClaim then (amountToClaim, deposit - amountToClaim)
    else (deposit, 0)

/-- `CalculateValidatorFee(valFee, amountToClaim)` → (finalClaim, valFeeCoin) : `floor(amount·fee)` -/
def calcValidatorFee (valFee : Dec18) (amount : Int) : M (Int × Int) :=
  if valFee > 0 then
    let feeAmt : Int := Int.tdiv (amount * valFee) (pow18 : Int)
    -- sdk.NewCoin / Coin.Sub panic on negative amounts
    if feeAmt < 0 then throw (.panic "negative coin amount")
    else if amount - feeAmt < 0 then throw (.panic "negative coin amount")
    else pure (amount - feeAmt, feeAmt)
  else pure (amount, 0)

structure Stream where
  denom : String
  deposit : Int
  rate : Int
  last : Int          -- LastOutflowTime (ns)
  zero : Int          -- DepositZeroTime (ns)
  cancellable : Bool
  deriving DecidableEq, Repr, Inhabited

structure StreamState where
  fee : Dec18
  streams : List ((Addr × Addr) × Stream) := []   -- key (receiver, sender)
  deriving Repr, DecidableEq

def strErr (code : Nat) : Err := .err "stream" code
def eStrInvalidData := strErr 2
def eStrExists := strErr 3
def eStrNotExist := strErr 4
def eStrNotCancellable := strErr 5

structure SB where   -- stream state + bank threaded together
  str : StreamState
  bank : Bank

/-- result of `ClaimFromStream` : (receiverAmount, valFee, claimTotal, remaining) -/
structure ClaimOut where
  pay : Int
  fee : Int
  total : Int
  rem : Int
  deriving Repr, DecidableEq, Inhabited

/-- `Time.Add(time.Second * time.Duration(d))` with the wrapping int64 multiplication -/
def addSeconds (t : Int) (d : Int) : Int := t + wrapI64 (nsPerSec * d)

/-- `ClaimFromStream` -/
def claimFromStream (x : SB) (now : Int) (blocked : Addr → Bool) (r s : Addr) : M (SB × ClaimOut) := do
  let nowSec := now / nsPerSec
  match AL.find? x.str.streams (r, s) with
  | none => throw eStrInvalidData
  | some st =>
    if st.deposit ≤ 0 then throw eStrInvalidData
    let (claimTotal, remaining) := calcAmountToClaim now st.zero st.last st.deposit st.rate
    if claimTotal < 0 then throw eStrInvalidData
    if st.deposit < claimTotal then throw eStrInvalidData
    let (receiverAmount, valFee) ← calcValidatorFee x.str.fee claimTotal
    let mut bank := x.bank
    if valFee > 0 then
      bank ← bank.sendCoins nowSec Mstr Mfee [{ denom := st.denom, amt := valFee }]
    if receiverAmount > 0 then
      if blocked r then throw eUnauthorized
      bank ← bank.sendCoins nowSec Mstr r [{ denom := st.denom, amt := receiverAmount }]
    let st' := { st with deposit := remaining, last := now }
    pure ({ str := { x.str with streams := AL.insert x.str.streams (r, s) st' }, bank := bank },
          { pay := receiverAmount, fee := valFee, total := claimTotal, rem := remaining })

/-- `AddDeposit` -/
def addDeposit (x : SB) (now : Int) (blocked : Addr → Bool) (r s : Addr) (denom : String) (amt : Int) : M SB := do
  let nowSec := now / nsPerSec
  match AL.find? x.str.streams (r, s) with
  | none => throw eStrNotExist
  | some st =>
    if denom ≠ st.denom then throw eStrInvalidData
    let durationExtension := calcDuration amt st.rate
    let mut x := x
    let mut st := st
    let mut zt : Int := 0
    if st.zero ≤ now then
      if st.deposit > 0 then
        let (x', _) ← claimFromStream x now blocked r s
        x := x'
        st := (AL.find? x.str.streams (r, s)).getD st
      st := { st with last := now }
      zt := addSeconds now durationExtension
    else
      zt := addSeconds st.zero durationExtension
    let bank ← x.bank.sendCoins nowSec s Mstr (Coins.ofCoin { denom := denom, amt := amt })
    if durationExtension > maxDurationSeconds then throw eStrInvalidData
    let st' := { st with deposit := st.deposit + amt, zero := zt }
    pure { str := { x.str with streams := AL.insert x.str.streams (r, s) st' }, bank := bank }

/-- `SetNewFlowRate` -/
def setNewFlowRate (x : SB) (now : Int) (blocked : Addr → Bool) (r s : Addr) (newRate : Int) : M SB := do
  match AL.find? x.str.streams (r, s) with
  | none => throw eStrNotExist
  | some st =>
    let mut x := x
    let mut st := st
    let mut zt : Int := now
    if st.deposit > 0 then
      let (x', _) ← claimFromStream x now blocked r s
      x := x'
      st := (AL.find? x.str.streams (r, s)).getD st
      let duration := calcDuration st.deposit newRate
      if duration > maxDurationSeconds then throw eStrInvalidData
      zt := addSeconds now duration
    let st' := { st with rate := newRate, zero := zt }
    pure { x with str := { x.str with streams := AL.insert x.str.streams (r, s) st' } }

/-- `CancelStreamBySenderReceiver` -/
def cancelStream (x : SB) (now : Int) (blocked : Addr → Bool) (r s : Addr) : M SB := do
  let nowSec := now / nsPerSec
  match AL.find? x.str.streams (r, s) with
  | none => throw eStrNotExist
  | some st =>
    if !st.cancellable then throw eStrNotCancellable
    let mut x := x
    let mut st := st
    if st.deposit > 0 then
      let (x', _) ← claimFromStream x now blocked r s
      x := x'
      st := (AL.find? x.str.streams (r, s)).getD st
    let mut bank := x.bank
    if st.deposit > 0 then
      if blocked s then throw eUnauthorized
      bank ← bank.sendCoins nowSec Mstr s [{ denom := st.denom, amt := st.deposit }]
    pure { str := { x.str with streams := AL.erase x.str.streams (r, s) }, bank := bank }

/-- `Coin.IsNil || IsNegative || IsZero` for a message coin (never nil here) -/
def coinNotPositive (amt : Int) : Bool := decide (amt ≤ 0)

/-- `ValidateBasic` of MsgCreateStream -/
def vbCreateStream (rT sT : AddrTok) (denom : String) (amt rate : Int) : M Unit := do
  if sT.decode.isNone then throw eInvalidAddress
  if rT.decode.isNone then throw eInvalidAddress
  if coinNotPositive amt then throw eStrInvalidData
  if rate < 1 then throw eStrInvalidData
  if sT = rT then throw eStrInvalidData
  let _ := denom
  if calcDuration amt rate < 60 then throw eStrInvalidData

/-- message server `CreateStream` -/
def createStream (x : SB) (now : Int) (blocked : Addr → Bool) (rT sT : AddrTok) (denom : String) (amt rate : Int) : M SB := do
  let s ← match sT.decode with | some a => pure a | none => throw eInvalidAddress
  let r ← match rT.decode with | some a => pure a | none => throw eInvalidAddress
  if blocked r then throw eUnauthorized
  if sT = rT then throw eStrInvalidData
  if AL.contains x.str.streams (r, s) then throw eStrExists
  if coinNotPositive amt then throw eStrInvalidData
  if rate ≤ 0 then throw eStrInvalidData
  if calcDuration amt rate < 60 then throw eStrInvalidData
  -- CreateNewStream
  let st : Stream := { denom := denom, deposit := 0, rate := rate, last := now, zero := 0, cancellable := true }
  let x1 : SB := { x with str := { x.str with streams := AL.insert x.str.streams (r, s) st } }
  addDeposit x1 now blocked r s denom amt

/-- message server `ClaimStream` -/
def claimStream (x : SB) (now : Int) (blocked : Addr → Bool) (rT sT : AddrTok) : M (SB × ClaimOut) := do
  let s ← match sT.decode with | some a => pure a | none => throw eInvalidAddress
  let r ← match rT.decode with | some a => pure a | none => throw eInvalidAddress
  if !AL.contains x.str.streams (r, s) then throw eStrInvalidData
  claimFromStream x now blocked r s

/-- message server `TopUpDeposit`; returns (CurrentDeposit, DepositZeroTime) -/
def topUpDeposit (x : SB) (now : Int) (blocked : Addr → Bool) (rT sT : AddrTok) (denom : String) (amt : Int) :
    M (SB × Int × Int) := do
  let s ← match sT.decode with | some a => pure a | none => throw eInvalidAddress
  let r ← match rT.decode with | some a => pure a | none => throw eInvalidAddress
  if coinNotPositive amt then throw eStrInvalidData
  match AL.find? x.str.streams (r, s) with
  | none => throw eStrInvalidData
  | some st =>
    if denom ≠ st.denom then throw eStrInvalidData
    let x' ← addDeposit x now blocked r s denom amt
    let st' := (AL.find? x'.str.streams (r, s)).getD st
    pure (x', st'.deposit, st'.zero)

/-- message server `UpdateFlowRate` -/
def updateFlowRate (x : SB) (now : Int) (blocked : Addr → Bool) (rT sT : AddrTok) (rate : Int) : M SB := do
  let s ← match sT.decode with | some a => pure a | none => throw eInvalidAddress
  let r ← match rT.decode with | some a => pure a | none => throw eInvalidAddress
  if rate ≤ 0 then throw eStrInvalidData
  if !AL.contains x.str.streams (r, s) then throw eStrInvalidData
  setNewFlowRate x now blocked r s rate

/-- message server `CancelStream` -/
def cancelStreamMsg (x : SB) (now : Int) (blocked : Addr → Bool) (rT sT : AddrTok) : M SB := do
  let s ← match sT.decode with | some a => pure a | none => throw eInvalidAddress
  let r ← match rT.decode with | some a => pure a | none => throw eInvalidAddress
  match AL.find? x.str.streams (r, s) with
  | none => throw eStrInvalidData
  | some st =>
    if !st.cancellable then throw eStrNotCancellable
    cancelStream x now blocked r s

/-- stream `Params.Validate` : 0 ≤ fee ≤ 1 -/
def streamParamsValid (fee : Dec18) : Bool := decide (0 ≤ fee) && decide (fee ≤ (pow18 : Int))

end Mainchain
