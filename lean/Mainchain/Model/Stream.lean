import Mainchain.Model.Bank
/-
x/stream : pure arithmetic of types/utils.go with Go's fixed-width semantics, and the keeper /
message-server state machine of keeper/{stream,msg_server}.go over bank-lite.
Times are total nanoseconds since the Unix epoch (`Int`).
-/
namespace Mainchain

/-- `sdk.Dec` as the 18-decimal scaled integer -/
abbrev Dec18 := Int

def maxDecBitLen : Nat := 315

/-- a stream must be funded for at least a minute (tied to the source by `c11_limits_from_source`) -/
def minStreamDuration : Int := 60

/-- `types.MaxDurationSeconds` = MaxInt64 / 10^9 : the longest duration expressible as a `time.Duration` -/
def maxDurationSeconds : Int := 9223372036

/-- `CalculateDuration(deposit, flowRate)` : `floor(deposit / flowRate)` in `sdk.Int`, saturating at
MaxInt64 when the quotient does not fit an int64. -/
def calcDuration (deposit : Int) (flowRate : Int) : Int :=
  if flowRate ≤ 0 then 0
  else if deposit > 0 then
    let q : Int := deposit / flowRate
    if inI64 q then q else maxI64
  else 0

/-- `CalculateAmountToClaim(now, zero, last, deposit, rate)` → (amountToClaim, remaining) -/
def calcAmountToClaim (now zero last : Int) (deposit : Int) (rate : Int) : Int × Int :=
  if now ≥ zero then (deposit, 0)
  else
    let timeSinceLast := satDur (now - last)
    let secondsSinceLast := max (durSeconds timeSinceLast) 0
    let amountToClaim : Int := secondsSinceLast * rate
    if deposit > amountToClaim then (amountToClaim, deposit - amountToClaim)
    else (deposit, 0)

/-- `floor(amount · fee)` for an 18-decimal fee (big.Int `Quo` truncates toward zero) -/
def feeOf (valFee : Dec18) (amount : Int) : Int := Int.tdiv (amount * valFee) (pow18 : Int)

/-- `CalculateValidatorFee(valFee, amountToClaim)` → (finalClaim, valFeeCoin) : `floor(amount·fee)` -/
def calcValidatorFee (valFee : Dec18) (amount : Int) : M (Int × Int) :=
  if valFee > 0 then do
    -- sdk.NewCoin / Coin.Sub panic on negative amounts
    require (0 ≤ feeOf valFee amount) (.panic "negative coin amount")
    require (0 ≤ amount - feeOf valFee amount) (.panic "negative coin amount")
    pure (amount - feeOf valFee amount, feeOf valFee amount)
  else .ok (amount, 0)

structure Stream where
  denom : String
  deposit : Int
  rate : Int
  last : Int          -- LastOutflowTime (ns)
  zero : Int          -- DepositZeroTime (ns)
  cancellable : Bool
  deriving DecidableEq, Repr, Inhabited

structure StreamState where
  fee : Dec18
  streams : List ((Addr × Addr) × Stream) := []   -- key (receiver, sender)
  deriving Repr, DecidableEq

def strErr (code : Nat) : Err := .err "stream" code
def eStrInvalidData := strErr 2
def eStrExists := strErr 3
def eStrNotExist := strErr 4
def eStrNotCancellable := strErr 5

structure SB where   -- stream state + bank threaded together
  str : StreamState
  bank : Bank

/-- result of `ClaimFromStream` : (receiverAmount, valFee, claimTotal, remaining) -/
structure ClaimOut where
  pay : Int
  fee : Int
  total : Int
  rem : Int
  deriving Repr, DecidableEq, Inhabited

/-- `Time.Add(time.Second * time.Duration(d))` with the wrapping int64 multiplication -/
def addSeconds (t : Int) (d : Int) : Int := t + wrapI64 (nsPerSec * d)

def findStream (x : SB) (r s : Addr) (e : Err) : M Stream :=
  match AL.find? x.str.streams (r, s) with
  | some st => .ok st
  | none => .error e

def setStream (x : SB) (r s : Addr) (st : Stream) : StreamState :=
  { x.str with streams := AL.insert x.str.streams (r, s) st }

/-- `SendCoinsFromModuleToModule(stream, fee_collector, …)` when the fee is positive -/
def payFee (b : Bank) (nowSec : Int) (denom : String) (fee : Int) : M Bank :=
  if fee > 0 then b.sendCoins nowSec Mstr Mfee [{ denom := denom, amt := fee }] else .ok b

/-- `SendCoinsFromModuleToAccount(stream, to, …)` when the amount is positive (blocked recipients refused) -/
def payOut (b : Bank) (nowSec : Int) (blocked : Addr → Bool) (to : Addr) (denom : String) (amt : Int) : M Bank :=
  if amt > 0 then do
    require (!blocked to) eUnauthorized
    b.sendCoins nowSec Mstr to [{ denom := denom, amt := amt }]
  else .ok b

/-- `ClaimFromStream` -/
def claimFromStream (x : SB) (now : Int) (blocked : Addr → Bool) (r s : Addr) : M (SB × ClaimOut) := do
  let st ← findStream x r s eStrInvalidData
  require (0 < st.deposit) eStrInvalidData
  let c := calcAmountToClaim now st.zero st.last st.deposit st.rate
  require (0 ≤ c.1) eStrInvalidData
  require (c.1 ≤ st.deposit) eStrInvalidData
  let f ← calcValidatorFee x.str.fee c.1
  let bank1 ← payFee x.bank (now / nsPerSec) st.denom f.2
  let bank2 ← payOut bank1 (now / nsPerSec) blocked r st.denom f.1
  pure ({ str := setStream x r s { st with deposit := c.2, last := now }, bank := bank2 },
        { pay := f.1, fee := f.2, total := c.1, rem := c.2 })

/-- claim first when the stream still holds a deposit; returns the refreshed stream -/
def settleIfFunded (x : SB) (now : Int) (blocked : Addr → Bool) (r s : Addr) (st : Stream) : M (SB × Stream) :=
  if st.deposit > 0 then do
    let y ← claimFromStream x now blocked r s
    pure (y.1, (AL.find? y.1.str.streams (r, s)).getD st)
  else .ok (x, st)

/-- `AddDeposit` -/
def addDeposit (x : SB) (now : Int) (blocked : Addr → Bool) (r s : Addr) (denom : String) (amt : Int) : M SB := do
  let st ← findStream x r s eStrNotExist
  require (denom = st.denom) eStrInvalidData
  let ext := calcDuration amt st.rate
  -- expired (or new) streams are settled and restart from now; running ones are extended
  let y ← (if st.zero ≤ now then do
      let z ← settleIfFunded x now blocked r s st
      pure (z.1, { z.2 with last := now }, addSeconds now ext)
    else (.ok (x, st, addSeconds st.zero ext) : M (SB × Stream × Int)))
  -- `sdk.NewCoins(topUpDeposit)` panics on an invalid denomination
  require (validDenom denom) (.panic "invalid denom")
  let bank ← y.1.bank.sendCoins (now / nsPerSec) s Mstr (Coins.ofCoin { denom := denom, amt := amt })
  require (ext ≤ maxDurationSeconds) eStrInvalidData
  pure { str := setStream y.1 r s { y.2.1 with deposit := y.2.1.deposit + amt, zero := y.2.2 }, bank := bank }

/-- `SetNewFlowRate` -/
def setNewFlowRate (x : SB) (now : Int) (blocked : Addr → Bool) (r s : Addr) (newRate : Int) : M SB := do
  let st ← findStream x r s eStrNotExist
  if st.deposit > 0 then do
    let z ← settleIfFunded x now blocked r s st
    let duration := calcDuration z.2.deposit newRate
    require (duration ≤ maxDurationSeconds) eStrInvalidData
    pure { z.1 with str := setStream z.1 r s { z.2 with rate := newRate, zero := addSeconds now duration } }
  else
    pure { x with str := setStream x r s { st with rate := newRate, zero := now } }

/-- `CancelStreamBySenderReceiver` -/
def cancelStream (x : SB) (now : Int) (blocked : Addr → Bool) (r s : Addr) : M SB := do
  let st ← findStream x r s eStrNotExist
  require st.cancellable eStrNotCancellable
  let z ← settleIfFunded x now blocked r s st
  let bank ← payOut z.1.bank (now / nsPerSec) blocked s z.2.denom z.2.deposit
  pure { str := { z.1.str with streams := AL.erase z.1.str.streams (r, s) }, bank := bank }

/-- `Coin.IsNil || IsNegative || IsZero` for a message coin (never nil here) -/
def coinNotPositive (amt : Int) : Bool := decide (amt ≤ 0)

/-- `ValidateBasic` of MsgCreateStream -/
def vbCreateStream (rT sT : AddrTok) (denom : String) (amt rate : Int) : M Unit := do
  let _ ← sT.decodeM
  let _ ← rT.decodeM
  let _ := denom
  require (!coinNotPositive amt) eStrInvalidData
  require (1 ≤ rate) eStrInvalidData
  require (sT ≠ rT) eStrInvalidData
  require (minStreamDuration ≤ calcDuration amt rate) eStrInvalidData

/-- message server `CreateStream` -/
def createStream (x : SB) (now : Int) (blocked : Addr → Bool) (rT sT : AddrTok) (denom : String) (amt rate : Int) : M SB := do
  let s ← sT.decodeM
  let r ← rT.decodeM
  require (!blocked r) eUnauthorized
  require (sT ≠ rT) eStrInvalidData
  require (!AL.contains x.str.streams (r, s)) eStrExists
  require (!coinNotPositive amt) eStrInvalidData
  require (0 < rate) eStrInvalidData
  require (minStreamDuration ≤ calcDuration amt rate) eStrInvalidData
  -- CreateNewStream
  let st : Stream := { denom := denom, deposit := 0, rate := rate, last := now, zero := 0, cancellable := true }
  addDeposit { x with str := setStream x r s st } now blocked r s denom amt

/-- message server `ClaimStream` -/
def claimStream (x : SB) (now : Int) (blocked : Addr → Bool) (rT sT : AddrTok) : M (SB × ClaimOut) := do
  let s ← sT.decodeM
  let r ← rT.decodeM
  require (AL.contains x.str.streams (r, s)) eStrInvalidData
  claimFromStream x now blocked r s

/-- message server `TopUpDeposit`; returns (CurrentDeposit, DepositZeroTime) -/
def topUpDeposit (x : SB) (now : Int) (blocked : Addr → Bool) (rT sT : AddrTok) (denom : String) (amt : Int) :
    M (SB × Int × Int) := do
  let s ← sT.decodeM
  let r ← rT.decodeM
  require (!coinNotPositive amt) eStrInvalidData
  let st ← findStream x r s eStrInvalidData
  require (denom = st.denom) eStrInvalidData
  let x' ← addDeposit x now blocked r s denom amt
  let st' := (AL.find? x'.str.streams (r, s)).getD st
  pure (x', st'.deposit, st'.zero)

/-- message server `UpdateFlowRate` -/
def updateFlowRate (x : SB) (now : Int) (blocked : Addr → Bool) (rT sT : AddrTok) (rate : Int) : M SB := do
  let s ← sT.decodeM
  let r ← rT.decodeM
  require (0 < rate) eStrInvalidData
  require (AL.contains x.str.streams (r, s)) eStrInvalidData
  setNewFlowRate x now blocked r s rate

/-- message server `CancelStream` -/
def cancelStreamMsg (x : SB) (now : Int) (blocked : Addr → Bool) (rT sT : AddrTok) : M SB := do
  let s ← sT.decodeM
  let r ← rT.decodeM
  let st ← findStream x r s eStrInvalidData
  require st.cancellable eStrNotCancellable
  cancelStream x now blocked r s

/-- stream `Params.Validate` : 0 ≤ fee ≤ 1 -/
def streamParamsValid (fee : Dec18) : Bool := decide (0 ≤ fee) && decide (fee ≤ (pow18 : Int))

end Mainchain
