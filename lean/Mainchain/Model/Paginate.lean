import Mainchain.Model.Keys
/-
The SDK's pagination helpers (types/query/{pagination,filtered_pagination}.go, v0.47.13) over a store
section given as a key-sorted list.  `FilteredPaginate` and `GenericFilteredPaginate` have the same
control flow (the latter calls a hit "non-empty result"), `Paginate` is the all-hits instance.
-/
namespace Mainchain
namespace Paginate
open Keys

structure Req where
  key : Bytes := []          -- empty = not set
  offset : Nat := 0
  limit : Nat := 0
  countTotal : Bool := false
  reverse : Bool := false
  deriving Repr, DecidableEq

structure Res (α : Type) where
  items : List α
  next : Bytes
  total : Nat
  deriving Repr

def defaultLimit : Nat := 100

/-- insertion into a key-ascending list -/
def insertKV {α : Type} (e : Bytes × α) : List (Bytes × α) → List (Bytes × α)
  | [] => [e]
  | f :: rest => if lexLt e.1 f.1 then e :: f :: rest else f :: insertKV e rest

/-- ascending byte order of the keys: the iteration order of a KV store -/
def sortKV {α : Type} (kvs : List (Bytes × α)) : List (Bytes × α) := kvs.foldl (fun acc e => insertKV e acc) []

/-- `getIterator(prefixStore, start, reverse)` on an ascending section; `none` = the `Key()` of an
invalid iterator (a panic, answered as a query error) -/
def iter {α : Type} (kvs : List (Bytes × α)) (start : Bytes) (reverse : Bool) : Option (List (Bytes × α)) :=
  if !reverse then
    some (if start = [] then kvs else kvs.filter (fun e => !lexLt e.1 start))
  else if start = [] then some kvs.reverse
  else
    match kvs.filter (fun e => !lexLt e.1 start) with
    | [] => some kvs.reverse
    | [_] => none
    | _ :: e2 :: _ => some ((kvs.filter (fun e => lexLt e.1 e2.1)).reverse)

/-- the loop of the key-based branch -/
def keyLoop {α : Type} (hit : Bytes → α → Option Bool) (limit : Nat) : List (Bytes × α) → Nat → List α → Option (Res α)
  | [], _, acc => some { items := acc, next := [], total := 0 }
  | (k, v) :: rest, n, acc =>
    if n = limit then some { items := acc, next := k, total := 0 }
    else match hit k v with
      | none => none
      | some true => keyLoop hit limit rest (n + 1) (acc ++ [v])
      | some false => keyLoop hit limit rest n acc

/-- the loop of the offset-based branch -/
def offLoop {α : Type} (hit : Bytes → α → Option Bool) (offset end_ : Nat) (countTotal : Bool) :
    List (Bytes × α) → Nat → List α → Bytes → Option (Res α)
  | [], n, acc, nk => some { items := acc, next := nk, total := if countTotal then n else 0 }
  | (k, v) :: rest, n, acc, nk =>
    match hit k v with
    | none => none
    | some h =>
      let acc' := if h && decide (offset ≤ n) && decide (n < end_) then acc ++ [v] else acc
      let n' := if h then n + 1 else n
      if n' = addU64 end_ 1 then   -- `numHits == end+1` in uint64: wraps to 0 when offset + limit = 2^64 - 1
        let nk' := if nk = [] then k else nk
        if !countTotal then some { items := acc', next := nk', total := 0 }
        else offLoop hit offset end_ countTotal rest n' acc' nk'
      else offLoop hit offset end_ countTotal rest n' acc' nk

/-- `FilteredPaginate` / `GenericFilteredPaginate`; `none` = error -/
def filtered {α : Type} (kvs : List (Bytes × α)) (req : Req) (hit : Bytes → α → Option Bool) : Option (Res α) :=
  if req.offset > 0 ∧ req.key ≠ [] then none else
  let limit := if req.limit = 0 then defaultLimit else req.limit
  let countTotal := if req.limit = 0 then true else req.countTotal
  if req.key ≠ [] then
    match iter kvs req.key req.reverse with
    | none => none
    | some it => keyLoop hit limit it 0 []
  else
    match iter kvs [] req.reverse with
    | none => none
    | some it => offLoop hit req.offset (addU64 req.offset limit) countTotal it 0 [] []

/-- `Paginate` : every entry is a hit -/
def plain {α : Type} (kvs : List (Bytes × α)) (req : Req) : Option (Res α) := filtered kvs req (fun _ _ => some true)

end Paginate
end Mainchain
