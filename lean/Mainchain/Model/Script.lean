import Mainchain.Model.Chain
import Mainchain.Model.Query
import Mainchain.Model.Genesis
/-
The line protocol of /verif/PROTOCOL.md : script parser, trace/digest printer and the
interpreter loop state.  Core Lean only (compiled into `mdriver`).
-/
namespace Mainchain
namespace Script

/-! ### printing -/

def tokAddr (a : Addr) : String :=
  if a = Mbond then "Mbond" else if a = Mdist then "Mdist" else if a = Ment then "Ment"
  else if a = Mfee then "Mfee" else if a = Mgov then "Mgov" else if a = Mnbond then "Mnbond"
  else if a = Mstr then "Mstr" else if a = Mxfer then "Mxfer"
  else if 2000 ≤ a ∧ a < 2008 then s!"L{a - 2000}" else s!"A{a}"

def tokAddrTok : AddrTok → String
  | .ok a false => tokAddr a
  | .ok a true => if a < 1000 then s!"U{a}" else "U" ++ tokAddr a
  | .bad => "Snotanaddress"
  | .empty => "S"

def dash (s : String) : String := if s.isEmpty then "-" else s

def pCoin (c : Coin) : String := s!"{c.amt}{c.denom}"
def pCoins (cs : Coins) : String := dash (",".intercalate (cs.map pCoin))
def pNats (xs : List Nat) : String := dash (",".intercalate (xs.map toString))

def sortNat (xs : List Nat) : List Nat := xs.mergeSort (· ≤ ·)

def pRegParams (p : RegParams) : String :=
  s!"{p.denom} {p.feeReg} {p.feeRec} {p.feeBuy} {p.defLimit} {p.maxLimit}"

def digestReg (pre item recItem : String) (r : RegState) : List String :=
  let ids := sortNat (AL.keys r.regs)
  [s!"D {pre}.params {pRegParams r.params}", s!"D {pre}.next {r.nextId}"] ++
  ids.filterMap (fun id => (AL.find? r.regs id).map (fun m =>
    let lim := match AL.find? r.limits id with | some l => toString l | none => "none"
    match r.kind with
    | .wrk => s!"D {pre}.{item} {id} {tokAddrTok m.owner} {dash m.moniker} {dash m.name} {dash m.genesis} {dash m.type} {m.regTime} {m.last} {m.num} {m.lowest} {lim}"
    | .bcn => s!"D {pre}.{item} {id} {tokAddrTok m.owner} {dash m.moniker} {dash m.name} {m.regTime} {m.last} {m.lowest} {m.num} {lim}")) ++
  (ids.map (fun id =>
    (r.retained id).filterMap (fun k => (AL.find? r.recs (id, k)).map (fun rc =>
      match r.kind with
      | .wrk => s!"D {pre}.{recItem} {id} {k} {dash rc.h0} {dash rc.h1} {dash rc.h2} {dash rc.h3} {dash rc.h4} {rc.subTime}"
      | .bcn => s!"D {pre}.{recItem} {id} {k} {dash rc.h0} {rc.subTime}")))).flatten

def pDecisions (ds : List Decision) : String :=
  dash (",".intercalate (ds.map (fun d => s!"{tokAddrTok d.signer}:{d.decision}:{d.time}")))

def sortAddrKeyed {α : Type} (xs : List (Addr × α)) : List (Addr × α) :=
  xs.mergeSort (fun a b => a.1 ≤ b.1)

def digest (s : State) (nAccts : Nat) : List String :=
  let e := s.ent
  let signers := dash (",".intercalate (e.params.signers.map (fun t => match t with
    | .empty => "" | t => tokAddrTok t)))
  [s!"D ent.params {e.params.denom} {e.params.minAccepts} {e.params.decisionLimit} {signers}",
   s!"D ent.next {e.nextId}"] ++
  (sortNat (AL.keys e.orders)).filterMap (fun id => (AL.find? e.orders id).map (fun po =>
    s!"D ent.po {id} {tokAddrTok po.purchaser} {po.amt}{po.denom} {po.status} {po.raiseTime} {po.completionTime} {pDecisions po.decisions}")) ++
  [s!"D ent.rq {pNats (sortNat e.raisedQ)}", s!"D ent.aq {pNats (sortNat e.acceptedQ)}",
   s!"D ent.wl {dash (",".intercalate ((sortNat e.whitelist).map tokAddr))}"] ++
  (sortAddrKeyed e.locked).map (fun x => s!"D ent.locked {tokAddr x.1} {pCoin x.2}") ++
  (sortAddrKeyed e.spent).map (fun x => s!"D ent.spent {tokAddr x.1} {pCoin x.2}") ++
  [s!"D ent.total {pCoin e.totalLocked} {pCoin e.totalSpent}"] ++
  digestReg "wrk" "chain" "block" s.wrk ++
  digestReg "bcn" "beacon" "ts" s.bcn ++
  [s!"D str.params {s.str.fee}"] ++
  (s.str.streams.mergeSort (fun a b => a.1.1 < b.1.1 ∨ (a.1.1 = b.1.1 ∧ a.1.2 ≤ b.1.2))).map (fun x =>
    let st := x.2
    s!"D str.stream {tokAddr x.1.1} {tokAddr x.1.2} {st.deposit}{st.denom} {st.rate} {st.last} {st.zero} {if st.cancellable then 1 else 0}") ++
  ((List.range nAccts) ++ [Ment, Mstr, 2000, 2001, 2002, 2003, 2004, 2005, 2006, 2007]).map (fun a =>
    s!"D bank.bal {tokAddr a} {pCoins (s.bank.allBalances a)} {pCoins (s.bank.spendable s.nowSec a)}") ++
  [s!"D bank.fees {pCoins (Coins.add (s.bank.allBalances Mfee) (s.bank.allBalances Mdist))}",
   s!"D bank.supply {pCoins ((Coins.safeSub (Bank.sortCoins (s.bank.supply.map (fun x => { denom := x.1, amt := (x.2 : Int) }))) (s.bank.allBalances Mgov)).1)}",
   s!"D auth.exists {dash (",".intercalate (((List.range nAccts).filter s.bank.hasAccount).map tokAddr))}"]

/-! ### parsing -/

def pAddr? (t : String) : Option Addr :=
  match t with
  | "Mbond" => some Mbond | "Mdist" => some Mdist | "Ment" => some Ment | "Mfee" => some Mfee
  | "Mgov" => some Mgov | "Mnbond" => some Mnbond | "Mstr" => some Mstr | "Mxfer" => some Mxfer
  | "L0" => some 2000 | "L1" => some 2001 | "L2" => some 2002 | "L3" => some 2003 | "L4" => some 2004 | "L5" => some 2005
  | "L6" => some 2006 | "L7" => some 2007
  | _ => if t.startsWith "A" then (t.drop 1).toNat? else none

def pAddrTok? (t : String) : Option AddrTok :=
  if t = "X" then some .bad
  else if t = "-" then some .empty
  else if t.startsWith "UM" then (pAddr? (t.drop 1).toString).map (fun a => .ok a true)   -- a module account spelled in upper case
  else if t.startsWith "U" then (t.drop 1).toNat?.map (fun i => .ok i true)
  else (pAddr? t).map (fun a => .ok a false)

def undash (s : String) : String := if s = "-" then "" else s

/-- int32 enum fields (decision, whitelist action): every value outside the valid set is rejected
by `ValidateBasic` before any state is touched, so negative values are folded onto the invalid `0` -/
def pEnum? (t : String) : Option Nat := t.toInt?.map (fun i => if i < 0 then 0 else i.toNat)

def pCoin? (t : String) : Option Coin :=
  let cs := t.toList
  let (sign, rest) := match cs with
    | '-' :: r => (true, r)
    | r => (false, r)
  let digits := rest.takeWhile Char.isDigit
  let denom := rest.dropWhile Char.isDigit
  if digits.isEmpty || denom.isEmpty then none
  else (String.ofList digits).toNat?.map (fun n =>
    { denom := String.ofList denom, amt := if sign then -(n : Int) else (n : Int) })

def pCoins? (t : String) : Option Coins :=
  if t = "-" then some [] else (t.splitOn ",").mapM pCoin?

def pAddrList? (t : String) : Option (List Addr) :=
  if t = "-" then some [] else (t.splitOn ",").mapM pAddr?

def pAddrTokList? (t : String) : Option (List AddrTok) :=
  if t = "-" then some [.empty] else (t.splitOn ",").mapM (fun x => if x = "" then some .empty else pAddrTok? x)

def hexVal (c : Char) : Option Nat :=
  if '0' ≤ c ∧ c ≤ '9' then some (c.toNat - '0'.toNat)
  else if 'a' ≤ c ∧ c ≤ 'f' then some (c.toNat - 'a'.toNat + 10)
  else none

/-- lower-case hex string → bytes (`-` = empty) -/
def pHex? (t : String) : Option (List Nat) :=
  if t = "-" then some [] else
  let rec go : List Char → Option (List Nat)
    | [] => some []
    | [_] => none
    | a :: b :: rest => do
      let x ← hexVal a
      let y ← hexVal b
      let r ← go rest
      pure ((x * 16 + y) :: r)
  go t.toList

/-- `key=value` lookup in a token list -/
def kv (toks : List String) (key : String) : Option String :=
  (toks.find? (·.startsWith (key ++ "="))).map (fun t => (t.drop (key.length + 1)).toString)

def pRegParamsToks? : List String → Option RegParams
  | [d, a, b, c, e, f] => do
    pure { denom := d, feeReg := ← a.toNat?, feeRec := ← b.toNat?, feeBuy := ← c.toNat?,
           defLimit := ← e.toNat?, maxLimit := ← f.toNat? }
  | _ => none

/-- parse one message from the front of a token list; returns the rest (prefix form for authz.exec) -/
def pMsg? : Nat → List String → Option (Msg × List String)
  | 0, _ => none
  | fuel + 1, toks =>
    match toks with
    | "ent.raise" :: p :: amt :: denom :: rest => do
      pure (.entRaise (← pAddrTok? p) (← amt.toInt?) denom, rest)
    | "ent.decide" :: id :: dec :: s :: rest => do
      pure (.entDecide (← id.toNat?) (← pEnum? dec) (← pAddrTok? s), rest)
    | "ent.wl" :: act :: a :: s :: rest => do
      pure (.entWl (← pEnum? act) (← pAddrTok? a) (← pAddrTok? s), rest)
    | "ent.params" :: auth :: denom :: mn :: lim :: signers :: rest => do
      pure (.entParams (← pAddrTok? auth)
        { denom := undash denom, minAccepts := ← mn.toNat?, decisionLimit := ← lim.toNat?, signers := ← pAddrTokList? signers }, rest)
    | "wrk.reg" :: m :: n :: g :: t :: o :: rest => do
      pure (.regReg .wrk (undash m) (undash n) (undash g) (undash t) (← pAddrTok? o), rest)
    | "wrk.rec" :: id :: h :: bh :: ph :: h1 :: h2 :: h3 :: o :: rest => do
      pure (.regRec .wrk (← id.toNat?) (← h.toNat?)
        { key := ← h.toNat?, h0 := undash bh, h1 := undash ph, h2 := undash h1, h3 := undash h2, h4 := undash h3, subTime := 0 }
        (← pAddrTok? o), rest)
    | "wrk.buy" :: id :: n :: o :: rest => do
      pure (.regBuy .wrk (← id.toNat?) (← n.toNat?) (← pAddrTok? o), rest)
    | "wrk.params" :: auth :: d :: a :: b :: c :: e :: f :: rest => do
      pure (.regParams .wrk (← pAddrTok? auth) (← pRegParamsToks? [undash d, a, b, c, e, f]), rest)
    | "bcn.reg" :: m :: n :: o :: rest => do
      pure (.regReg .bcn (undash m) (undash n) "" "" (← pAddrTok? o), rest)
    | "bcn.rec" :: id :: h :: st :: o :: rest => do
      pure (.regRec .bcn (← id.toNat?) 0 { key := 0, h0 := undash h, subTime := ← st.toNat? } (← pAddrTok? o), rest)
    | "bcn.buy" :: id :: n :: o :: rest => do
      pure (.regBuy .bcn (← id.toNat?) (← n.toNat?) (← pAddrTok? o), rest)
    | "bcn.params" :: auth :: d :: a :: b :: c :: e :: f :: rest => do
      pure (.regParams .bcn (← pAddrTok? auth) (← pRegParamsToks? [undash d, a, b, c, e, f]), rest)
    | "str.create" :: r :: s :: amt :: denom :: rate :: rest => do
      pure (.strCreate (← pAddrTok? r) (← pAddrTok? s) (← amt.toInt?) denom (← rate.toInt?), rest)
    | "str.claim" :: r :: s :: rest => do
      pure (.strClaim (← pAddrTok? r) (← pAddrTok? s), rest)
    | "str.topup" :: r :: s :: amt :: denom :: rest => do
      pure (.strTopup (← pAddrTok? r) (← pAddrTok? s) (← amt.toInt?) denom, rest)
    | "str.rate" :: r :: s :: rate :: rest => do
      pure (.strRate (← pAddrTok? r) (← pAddrTok? s) (← rate.toInt?), rest)
    | "str.cancel" :: r :: s :: rest => do
      pure (.strCancel (← pAddrTok? r) (← pAddrTok? s), rest)
    | "str.params" :: auth :: fee :: rest => do
      pure (.strParams (← pAddrTok? auth) (← fee.toInt?), rest)
    | "bank.send" :: a :: b :: coins :: rest => do
      pure (.bankSend (← pAddrTok? a) (← pAddrTok? b) (← pCoins? coins), rest)
    | "authz.grant" :: g :: e :: kind :: rest => do
      pure (.authzGrant (← pAddrTok? g) (← pAddrTok? e) kind, rest)
    | "authz.revoke" :: g :: e :: kind :: rest => do
      pure (.authzRevoke (← pAddrTok? g) (← pAddrTok? e) kind, rest)
    | "feegrant.grant" :: g :: e :: rest => do
      pure (.feegrantGrant (← pAddrTok? g) (← pAddrTok? e), rest)
    | "authz.exec" :: g :: k :: rest => do
      let gt ← pAddrTok? g
      let n ← k.toNat?
      let rec go (fuel' : Nat) (i : Nat) (toks : List String) (acc : List Msg) : Option (List Msg × List String) :=
        match i with
        | 0 => some (acc, toks)
        | i' + 1 =>
          match pMsg? fuel' toks with
          | some (m, r) => go fuel' i' r (acc ++ [m])
          | none => none
      let (ms, r) ← go fuel n rest []
      pure (.authzExec gt ms, r)
    | _ => none

/-- messages of a TX line: `m ; m ; …` -/
def pMsgs? (toks : List String) : Option (List Msg) :=
  let rec go (fuel : Nat) (toks : List String) (acc : List Msg) : Option (List Msg) :=
    match fuel with
    | 0 => none
    | fuel + 1 =>
      match pMsg? 64 toks with
      | none => none
      | some (m, rest) =>
        match rest with
        | [] => some (acc ++ [m])
        | ";" :: rest' => go fuel rest' (acc ++ [m])
        | _ => none
  go 64 toks []

def pSig? : String → Option SigFlag
  | "ok" => some .ok | "badkey" => some .badkey | "badseq" => some .badseq | _ => none

/-- `TX`/`CHECK` line after the keyword: `<n> signers=… granter=… fee=… sig=… :: msgs` -/
def pTx? (toks : List String) : Option (Nat × Tx) := do
  let n ← (← toks.head?).toNat?
  let hdr := toks.takeWhile (· ≠ "::")
  let body := (toks.dropWhile (· ≠ "::")).drop 1
  let signers ← pAddrList? (← kv hdr "signers")
  let granter ← match ← kv hdr "granter" with
    | "-" => some none
    | g => (pAddr? g).map some
  let feePayer ← match kv hdr "payer" with    -- optional field
    | none => some none
    | some "-" => some none
    | some p => (pAddr? p).map some
  let fee ← pCoins? (← kv hdr "fee")
  let sig ← pSig? (← kv hdr "sig")
  let msgs ← pMsgs? body
  pure (n, { signers := signers, granter := granter, feePayer := feePayer, fee := fee, sig := sig, msgs := msgs })

/-! ### queries (PROTOCOL.md §7) -/

def hexDigit (n : Nat) : Char := if n < 10 then Char.ofNat (48 + n) else Char.ofNat (87 + n)
def pHex (bs : List Nat) : String :=
  if bs.isEmpty then "-" else String.ofList ((bs.map (fun b => [hexDigit (b / 16), hexDigit (b % 16)])).flatten)

def pPage? (toks : List String) : Option Paginate.Req :=
  match toks with
  | [k, o, l, t, r] => do
    let key ← pHex? (← kv [k] "key")
    let off ← (← kv [o] "off").toNat?
    let lim ← (← kv [l] "lim").toNat?
    let tot ← match ← kv [t] "tot" with | "0" => some false | "1" => some true | _ => none
    let rev ← match ← kv [r] "rev" with | "0" => some false | "1" => some true | _ => none
    pure { key := key, offset := off, limit := lim, countTotal := tot, reverse := rev }
  | _ => none

def pPoToks (po : PO) : String :=
  s!"{po.id} {tokAddrTok po.purchaser} {po.amt}{po.denom} {po.status} {po.raiseTime} {po.completionTime} {pDecisions po.decisions}"

def pPageTail {α : Type} (r : Paginate.Res α) : String := s!"next={pHex r.next} total={r.total}"

def pItems {α : Type} (f : α → String) (r : Paginate.Res α) : String :=
  s!"items={dash (",".intercalate (r.items.map f))} pm=0 {pPageTail r}"

def pStreamToks (r s : String) (st : Stream) : String :=
  s!"{r} {s} {st.deposit}{st.denom} {st.rate} {st.last} {st.zero} {if st.cancellable then 1 else 0}"

/-- env adjustment of a supply figure: the gov module account is part of the environment -/
def adjCoin (s : State) (c : Coin) : Coin := { c with amt := c.amt - (s.bank.balOf Mgov c.denom : Int) }

def pRegToks (r : RegState) (m : RegMeta) : String :=
  let lim := match AL.find? r.limits m.id with | some l => toString l | none => "none"
  match r.kind with
  | .wrk => s!"{m.id} {tokAddrTok m.owner} {dash m.moniker} {dash m.name} {dash m.genesis} {dash m.type} {m.regTime} {m.last} {m.num} {m.lowest} {lim}"
  | .bcn => s!"{m.id} {tokAddrTok m.owner} {dash m.moniker} {dash m.name} {m.regTime} {m.last} {m.lowest} {m.num} {lim}"

/-- answer of one QUERY line: `none` = error -/
def runQuery (tbl : List (Addr × List Nat)) (s : State) (kind : String) (args : List String) : Option String :=
  match kind, args with
  | "ent.po", [id] => do
    let po ← Query.entPo s.ent (← id.toNat?)
    pure (pPoToks po)
  | "ent.pos", st :: pu :: page => do
    let stv ← match ← kv [st] "status" with | "-" => some (0 : Int) | x => x.toInt?
    let put ← pAddrTok? (← kv [pu] "purchaser")
    let r ← Query.entPos s.ent stv put (← pPage? page)
    pure (pItems (fun (po : PO) => toString po.id) r)
  | "ent.wl", [] => some s!"items={dash (",".intercalate ((Query.entWl tbl s.ent).map tokAddr))}"
  | "ent.wled", [a] => do
    let b ← Query.entWled s.ent (← pAddrTok? a)
    pure (if b then "1" else "0")
  | "ent.locked", [a] => do
    let c ← Query.entLocked s.ent (← pAddrTok? a)
    pure s!"- {pCoin c}"
  | "ent.spent", [a] => do
    let c ← Query.entSpent s.ent (← pAddrTok? a)
    pure s!"- {pCoin c}"
  | "ent.totallocked", [] => some (pCoin s.ent.totalLocked)
  | "ent.totalspent", [] => some (pCoin s.ent.totalSpent)
  | "ent.totalunlocked", [] => do
    let c ← Query.totalUnlocked s
    pure (pCoin (adjCoin s c))
  | "ent.entsupply", [] => do
    let (d, locked, unlocked, total) ← Query.entSupply s
    let env : Int := s.bank.balOf Mgov d
    pure s!"{dash d} {locked} {unlocked - env} {total - env}"
  | "ent.supplyof", [d] => do
    let c ← Query.supplyOf s (undash d)
    pure (pCoin (adjCoin s c))
  | "bank.supplyof", [d] =>
    if undash d = "" then none else some (pCoin (adjCoin s (Query.supplyCoin s.bank (undash d))))
  | "ent.totalsupply", page => do
    let r ← Query.totalSupply s (← pPage? page)
    let cs := (r.items.map (adjCoin s)).filter (·.amt ≠ 0)
    pure s!"coins={pCoins cs} {pPageTail r}"
  | "wrk.chain", [id] => do
    let m ← Query.regGet s.wrk (← id.toNat?)
    pure (pRegToks s.wrk m)
  | "bcn.beacon", [id] => do
    let m ← Query.regGet s.bcn (← id.toNat?)
    pure (pRegToks s.bcn m)
  | "wrk.chains", mo :: ow :: page => do
    let r ← Query.regList s.wrk (undash (← kv [mo] "moniker")) (← pAddrTok? (← kv [ow] "owner")) (← pPage? page)
    pure (pItems (fun (m : RegMeta) => toString m.id) r)
  | "bcn.beacons", mo :: ow :: page => do
    let r ← Query.regList s.bcn (undash (← kv [mo] "moniker")) (← pAddrTok? (← kv [ow] "owner")) (← pPage? page)
    pure (pItems (fun (m : RegMeta) => toString m.id) r)
  | "wrk.block", [id, h] => do
    let (m, rc) ← Query.regRecord s.wrk (← id.toNat?) (← h.toNat?)
    pure s!"{m.id} {rc.key} {dash rc.h0} {dash rc.h1} {dash rc.h2} {dash rc.h3} {dash rc.h4} {rc.subTime}"
  | "bcn.ts", [id, t] => do
    let (m, rc) ← Query.regRecord s.bcn (← id.toNat?) (← t.toNat?)
    pure s!"{m.id} {rc.key} {dash rc.h0} {rc.subTime}"
  | "wrk.storage", [id] => do
    let (o, l, u, mx, mp) ← Query.regStorage s.wrk (← id.toNat?)
    pure s!"{tokAddrTok o} {l} {u} {mx} {mp}"
  | "bcn.storage", [id] => do
    let (o, l, u, mx, mp) ← Query.regStorage s.bcn (← id.toNat?)
    pure s!"{tokAddrTok o} {l} {u} {mx} {mp}"
  | "str.stream", [r, sn] => do
    let rt ← pAddrTok? r
    let stt ← pAddrTok? sn
    let x ← Query.strGet s.str rt stt
    pure (pStreamToks (tokAddrTok rt) (tokAddrTok stt) x.2)
  | "str.streams", page => do
    let r ← Query.strStreams tbl s.str (← pPage? page)
    pure (pItems (fun (x : Query.StreamItem) => s!"{tokAddr x.1.1}/{tokAddr x.1.2}") r)
  | "str.bysender", a :: page => do
    let r ← Query.strBySender tbl s.str (← pAddrTok? a) (← pPage? page)
    pure (pItems (fun (x : Query.StreamItem) => s!"{tokAddr x.1.1}/{tokAddr x.1.2}") r)
  | "str.byreceiver", a :: page => do
    let r ← Query.strByReceiver tbl s.str (← pAddrTok? a) (← pPage? page)
    pure (pItems (fun (x : Query.StreamItem) => s!"{tokAddr x.1.1}/{tokAddr x.1.2}") r)
  | "params", ["ent"] =>
    let e := s.ent
    let signers := dash (",".intercalate (e.params.signers.map (fun t => match t with | .empty => "" | t => tokAddrTok t)))
    some s!"{dash e.params.denom} {e.params.minAccepts} {e.params.decisionLimit} {signers}"
  | "params", ["wrk"] => some (pRegParams s.wrk.params)
  | "params", ["bcn"] => some (pRegParams s.bcn.params)
  | "params", ["str"] => some (toString s.str.fee)
  | _, _ => none

/-! ### interpreter -/

structure Interp where
  cfg : GenCfg := {}
  node : Option Node := none
  nAccts : Nat := 0
  /-- proposals of the open block: running number, whether the vote passes it, its messages -/
  govs : List (Nat × Bool × List Msg) := []
  halted : Bool := false
  commits : Nat := 0

def pRespFields (rs : List Resp) : String :=
  let fs := (rs.zipIdx.map (fun (r, k) => r.map (fun (f : String × String) => s!"{k}.{f.1}={f.2}"))).flatten
  if fs.isEmpty then "" else " " ++ " ".intercalate fs

def outcomeStr : Outcome → String
  | .ok => "ok" | .err => "err" | .panic => "panic"

def genLine (c : GenCfg) (toks : List String) : Option GenCfg :=
  match toks with
  | ["time", t] => do pure { c with timeSec := ← t.toInt? }
  | ["acct", a, "base", coins] => do
    pure { c with accts := c.accts ++ [{ id := ← pAddr? a, exists_ := true, balance := ← pCoins? coins, vest := none }] }
  | ["acct", a, "vest", coins, orig, endT] => do
    pure { c with accts := c.accts ++ [{ id := ← pAddr? a, exists_ := true, balance := ← pCoins? coins,
                                         vest := some { orig := ← pCoins? orig, endTime := ← endT.toInt? } }] }
  | ["acct", a, "none"] => do
    pure { c with accts := c.accts ++ [{ id := ← pAddr? a, exists_ := false, balance := [], vest := none }] }
  | "ent" :: rest => do
    pure { c with ent := { denom := ← kv rest "denom", minAccepts := ← (← kv rest "min").toNat?,
                           decisionLimit := ← (← kv rest "limit").toNat?, signers := ← pAddrTokList? (← kv rest "signers") }
                  entWl := ← pAddrList? (← kv rest "wl")
                  entStart := ← (← kv rest "startid").toNat? }
  | "wrk" :: rest => do
    pure { c with wrk := ← pRegParamsToks? [← kv rest "denom", ← kv rest "reg", ← kv rest "rec", ← kv rest "buy", ← kv rest "def", ← kv rest "max"]
                  wrkStart := ← (← kv rest "startid").toNat? }
  | "bcn" :: rest => do
    pure { c with bcn := ← pRegParamsToks? [← kv rest "denom", ← kv rest "reg", ← kv rest "rec", ← kv rest "buy", ← kv rest "def", ← kv rest "max"]
                  bcnStart := ← (← kv rest "startid").toNat? }
  | ["str", f] => do pure { c with strFee := ← (← kv [f] "fee").toInt? }
  | ["lacct", a, coins] => do    -- a long (non-key) address with an account and coins in genesis
    pure { c with accts := c.accts ++ [{ id := ← pAddr? a, exists_ := true, balance := ← pCoins? coins, vest := none }] }
  | ["authz", granter, grantee, kind] => do
    pure { c with grants := c.grants ++ [(← pAddr? granter, ← pAddr? grantee, kind)] }
  | ["addr", tok, hex] => do pure { c with addrBytes := c.addrBytes ++ [(← pAddr? tok, ← pHex? hex)] }
  | _ => none

/-- the `RG` lines of a block: a proposal the vote did not pass is `rejected` and none of its messages ran -/
def rgLines (s : State) : List (Nat × Bool × List Msg) → List Bool → List String
  | [], _ => []
  | (k, false, ms) :: gs, oks => s!"RG {k} {if govSubmitOK s ms then "rejected" else "err"}" :: rgLines s gs oks
  | (k, true, _) :: gs, ok :: oks => s!"RG {k} {if ok then "ok" else "err"}" :: rgLines s gs oks
  | (k, true, _) :: gs, [] => s!"RG {k} err" :: rgLines s gs []

/-- process one script line: new interpreter state and the trace lines it emits -/
def stepToks (wall : Nat) (it : Interp) (line : String) (toks : List String) : Interp × List String :=
  match toks with
  | [] => (it, [])
  | "G" :: rest =>
    match genLine it.cfg rest with
    | some c => ({ it with cfg := c }, [])
    | none => ({ it with halted := true }, [s!"! bad-line {line}"])
  | ["INIT"] =>
    let n := Node.init it.cfg
    let k := (it.cfg.accts.filter (fun a => decide (a.id < 1000))).length
    ({ it with node := some n, nAccts := k }, ["I ok"] ++ digest n.committed k)
  | ["BEGIN", sec, ns] =>
    match it.node, sec.toInt?, ns.toInt? with
    | some n, some s, some nn =>
      match n.begin (s * nsPerSec + nn) with
      | .ok n' => ({ it with node := some n', govs := [] }, ["B ok"])
      | .error _ => ({ it with halted := true }, ["B panic"])
    | _, _, _ => ({ it with halted := true }, [s!"! bad-line {line}"])
  | "TX" :: rest =>
    match it.node, pTx? rest with
    | some n, some (k, tx) =>
      let (n', r) := n.deliver wall tx
      ({ it with node := some n' }, [s!"R {k} {outcomeStr r.outcome}{pRespFields r.resps}", s!"r {k} {r.code}"])
    | _, _ => ({ it with halted := true }, [s!"! bad-line {line}"])
  | "CHECK" :: rest =>
    match it.node, pTx? rest with
    | some n, some (k, tx) =>
      let (n', r) := n.checkTx tx
      ({ it with node := some n' }, [s!"C {k} {outcomeStr r.outcome}", s!"c {k} {r.code}"])
    | _, _ => ({ it with halted := true }, [s!"! bad-line {line}"])
  | "RECHECK" :: k :: _ref :: rest =>       -- RECHECK <N> <n> <the transaction of CHECK n>
    match it.node, pTx? (k :: rest) with
    | some n, some (k, tx) =>
      let (n', r) := n.recheckTx tx
      ({ it with node := some n' }, [s!"CR {k} {outcomeStr r.outcome}", s!"cr {k} {r.code}"])
    | _, _ => ({ it with halted := true }, [s!"! bad-line {line}"])
  | "QUERY" :: k :: kind :: args =>
    match it.node with
    | some n =>
      match runQuery it.cfg.addrBytes n.committed kind args with
      | some out => (it, [s!"Q {k} ok {out}"])
      | none => (it, [s!"Q {k} err"])
    | none => ({ it with halted := true }, [s!"! bad-line {line}"])
  | ["EXPORTIMPORT"] =>
    match it.node with
    | some n =>
      match Genesis.exportImport Facts.initGenesisOrder n.committed with
      | .ok s' => ({ it with node := some { committed := s', working := s', check := s' } },
                   ["X ok inv=0"] ++ digest s' it.nAccts ++ ["X2 same"])
      | .error _ => (it, ["X panic"])
    | none => ({ it with halted := true }, [s!"! bad-line {line}"])
  | ["CRASH"] =>
    match it.node with
    | some n =>
      let n' := n.crash
      ({ it with node := some n', govs := [] }, [s!"Z ok {it.commits}"] ++ digest n'.committed it.nAccts)
    | none => ({ it with halted := true }, [s!"! bad-line {line}"])
  | ["DIGEST"] =>
    match it.node with
    | some n => (it, digest n.committed it.nAccts)
    | none => ({ it with halted := true }, [s!"! bad-line {line}"])
  | "GOVEXEC" :: k :: rest =>
    -- optional `vote=<yes|no|veto|abstain>` : how the (only) validator votes; anything but yes rejects the proposal
    let (passes, rest) := match rest with
      | v :: more => if v.startsWith "vote=" then (v == "vote=yes", more) else (true, rest)
      | [] => (true, rest)
    match k.toNat?, pMsgs? rest with
    | some k, some ms => ({ it with govs := it.govs ++ [(k, passes, ms)] }, [])
    | _, _ => ({ it with halted := true }, [s!"! bad-line {line}"])
  | ["END"] =>
    match it.node with
    | some n =>
      let (n', oks) := n.endBlock wall ((it.govs.filter (·.2.1)).map (·.2.2))
      let lines := rgLines n.working it.govs oks
      ({ it with node := some n', govs := [] }, ["E ok"] ++ lines)
    | none => ({ it with halted := true }, [s!"! bad-line {line}"])
  | ["COMMIT"] =>
    match it.node with
    | some n =>
      let n' := n.commit
      ({ it with node := some n', commits := it.commits + 1 }, ["K ok"] ++ digest n'.committed it.nAccts)
    | none => ({ it with halted := true }, [s!"! bad-line {line}"])
  | _ => ({ it with halted := true }, [s!"! bad-line {line}"])

/-- process one script line: tokenise, then `stepToks` -/
def step (wall : Nat) (it : Interp) (line : String) : Interp × List String :=
  if it.halted then (it, []) else stepToks wall it line ((line.splitOn " ").filter (· ≠ ""))

/-- run a whole script -/
def run (wall : Nat) (lines : List String) : List String :=
  (lines.foldl (fun (acc : Interp × List String) l =>
    let (it, out) := step wall acc.1 l
    (it, acc.2 ++ out)) ({}, [])).2

end Script
end Mainchain
