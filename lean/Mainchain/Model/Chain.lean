import Mainchain.Model.Tx
/-
Block life-cycle at ABCI granularity: a node has a committed state, a working (deliver) state
that only `commit` publishes, and a check state that is reset by `commit`.
-/
namespace Mainchain

structure Node where
  committed : State
  working : State
  check : State
  deriving Repr

/-- scenario genesis as described by the `G …` lines of a script -/
structure GenAcct where
  id : Addr
  exists_ : Bool
  balance : Coins
  vest : Option Vest
  deriving Repr

structure GenCfg where
  timeSec : Int := 0
  accts : List GenAcct := []
  ent : EntParams := { denom := "nund", minAccepts := 1, decisionLimit := 84600, signers := [] }
  entWl : List Addr := []
  entStart : Nat := 1
  wrk : RegParams := { denom := "nund", feeReg := 1, feeRec := 1, feeBuy := 1, defLimit := 1, maxLimit := 1 }
  wrkStart : Nat := 1
  bcn : RegParams := { denom := "nund", feeReg := 1, feeRec := 1, feeBuy := 1, defLimit := 1, maxLimit := 1 }
  bcnStart : Nat := 1
  strFee : Int := 0
  /-- raw address bytes of the scenario and module accounts (`G addr` lines); needed wherever store order
  depends on address bytes (whitelist, locked/spent entries, streams) -/
  addrBytes : List (Addr × List Nat) := []
  /-- authz grants present in the genesis document (`G authz` lines): (granter, grantee, message kind) — the way an
  account that holds no key (a module-derived, group-policy or interchain account) comes to act at all -/
  grants : List (Addr × Addr × String) := []
  deriving Repr

def moduleAccounts : List Addr := [Mbond, Mdist, Ment, Mfee, Mgov, Mnbond, Mstr, Mxfer]

/-- `InitChain` for the scenario genesis (custom-module sections empty apart from parameters,
whitelist and starting ids) -/
def initState (g : GenCfg) : State :=
  let bank0 : Bank := { accts := moduleAccounts }
  let bank := g.accts.foldl (fun (b : Bank) a =>
    if !a.exists_ then b else
    let b1 := { b with accts := b.accts ++ [a.id] }
    let b2 := a.balance.foldl (fun (b : Bank) c =>
      { b with bal := AL.setNat b.bal (a.id, c.denom) c.amt.toNat
               supply := AL.setNat b.supply c.denom (b.supplyOf c.denom + c.amt.toNat) }) b1
    match a.vest with
    | some v => { b2 with vest := AL.insert b2.vest a.id v }
    | none => b2) bank0
  { bank := bank
    ent := { params := g.ent, nextId := g.entStart,
             whitelist := g.entWl.foldl (fun acc a => EntState.insertSortedNat a acc) [],
             totalLocked := { denom := g.ent.denom, amt := 0 }, totalSpent := { denom := g.ent.denom, amt := 0 } }
    wrk := { kind := .wrk, params := g.wrk, nextId := g.wrkStart }
    bcn := { kind := .bcn, params := g.bcn, nextId := g.bcnStart }
    str := { fee := g.strFee }
    grants := g.grants
    time := g.timeSec * nsPerSec }

def Node.init (g : GenCfg) : Node :=
  let s := initState g
  { committed := s, working := s, check := s }

/-- `BeginBlock` at block time `t` (ns) -/
def Node.begin (n : Node) (t : Int) : M Node := do
  let s ← beginBlock Facts.beginBlockSteps { n.committed with time := t }
  pure { n with working := s }

def Node.deliver (n : Node) (wall : Nat) (tx : Tx) : Node × TxResult :=
  let (s, r) := deliverTx Facts.anteOrder wall n.working tx
  ({ n with working := s }, r)

def Node.checkTx (n : Node) (tx : Tx) : Node × TxResult :=
  let (s, r) := Mainchain.checkTx Facts.anteOrder n.check tx
  ({ n with check := s }, r)

/-- CheckTx of type Recheck (mempool re-validation after a commit) on the check state -/
def Node.recheckTx (n : Node) (tx : Tx) : Node × TxResult :=
  let (s, r) := Mainchain.recheckTx Facts.anteOrder n.check tx
  ({ n with check := s }, r)

/-- `EndBlock` : the governance messages due in this block -/
def Node.endBlock (n : Node) (wall : Nat) (govs : List (List Msg)) : Node × List Bool :=
  let (s, rs) := govs.foldl (fun (acc : State × List Bool) ms =>
    let (s', ok) := govExecAll wall acc.1 ms
    (s', acc.2 ++ [ok])) (n.working, [])
  ({ n with working := s }, rs)

def Node.commit (n : Node) : Node :=
  { n with committed := n.working, check := n.working }

/-- a crash anywhere inside a block loses exactly the working and check states -/
def Node.crash (n : Node) : Node :=
  { committed := n.committed, working := n.committed, check := n.committed }

/-- one block as CometBFT delivers it: header time, transactions, the governance messages whose voting
period ends in it -/
structure Block where
  time : Int
  txs : List Tx
  govs : List (List Msg) := []

/-- BeginBlock, every DeliverTx, EndBlock, Commit -/
def Node.runBlock (n : Node) (wall : Nat) (b : Block) : M Node := do
  let n1 ← n.begin b.time
  let n2 := b.txs.foldl (fun (n : Node) tx => (n.deliver wall tx).1) n1
  pure (n2.endBlock wall b.govs).1.commit

end Mainchain
