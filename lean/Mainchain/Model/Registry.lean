import Mainchain.Model.Types
/-
x/wrkchain and x/beacon as ONE generic "registry" machine instantiated twice.
  wrk : records keyed by caller-chosen, strictly increasing height; prune pointer recomputed from the store
  bcn : records keyed by assigned consecutive ids; prune pointer `first + 1`
Sources: x/{wrkchain,beacon}/keeper/{msg_server,record,register,params}.go, types/msgs.go.
-/
namespace Mainchain

inductive RegKind where | wrk | bcn
  deriving DecidableEq, Repr, Inhabited

structure RegParams where
  denom : String
  feeReg : Nat
  feeRec : Nat
  feeBuy : Nat
  defLimit : Nat
  maxLimit : Nat
  deriving DecidableEq, Repr, Inhabited

/-- `Params.Validate()` of x/wrkchain and x/beacon (identical) -/
def RegParams.validate (p : RegParams) : Bool :=
  !(isBlank p.denom) && validDenom p.denom &&
  decide (p.feeReg ≠ 0) && decide (p.feeRec ≠ 0) && decide (p.feeBuy ≠ 0) &&
  decide (p.defLimit ≠ 0) && decide (p.maxLimit ≠ 0) && decide (p.defLimit ≤ p.maxLimit)

/-- registration metadata (`WrkChain` / `Beacon`) -/
structure RegMeta where
  id : Nat
  owner : AddrTok          -- stored owner string
  moniker : String
  name : String
  genesis : String         -- wrk only
  type : String            -- wrk only
  regTime : Nat
  last : Nat               -- Lastblock      / LastTimestampId
  num : Nat                -- NumBlocks      / NumInState
  lowest : Nat             -- LowestHeight   / FirstIdInState
  deriving DecidableEq, Repr, Inhabited

/-- one stored record (`WrkChainBlock` / `BeaconTimestamp`) -/
structure Rec where
  key : Nat                -- height / timestamp id
  h0 : String              -- blockhash / hash
  h1 : String := ""        -- parenthash
  h2 : String := ""
  h3 : String := ""
  h4 : String := ""
  subTime : Nat
  deriving DecidableEq, Repr, Inhabited

/-- byte limits of the submitted strings (`ValidateBasic` and the message servers; tied to the source by
`c07_limits_from_source` / `c09_limits_from_source`) -/
def maxHashLen : Nat := 66
def maxMonikerLen : Nat := 64
def maxNameLen : Nat := 128

/-- compile-time default used when a registration has no limit entry (`types.DefaultStorageLimit`) -/
def constDefaultStorageLimit : Nat := 50000

structure RegState where
  kind : RegKind
  params : RegParams
  nextId : Nat
  regs : List (Nat × RegMeta) := []
  limits : List (Nat × Nat) := []
  recs : List ((Nat × Nat) × Rec) := []
  deriving Repr, DecidableEq

namespace RegState

def modName (s : RegState) : String := match s.kind with | .wrk => "wrkchain" | .bcn => "beacon"
def mErr (s : RegState) (code : Nat) : Err := .err s.modName code
-- registered codes (same numbering in both modules where used by the model)
-- wrk: 401 exists?, … the concrete numbers are soft; classes matter.

/-- `GetWrkChainStorageLimit` / `GetBeaconStorageLimit` : (limit, found) -/
def limitOf (s : RegState) (id : Nat) : Nat × Bool :=
  match AL.find? s.limits id with
  | some l => (l, true)
  | none => (constDefaultStorageLimit, false)

/-- `GetMaxPurchasableSlots` -/
def maxPurchasable (s : RegState) (id : Nat) : Nat :=
  let (l, found) := s.limitOf id
  if !found then 0
  else if l ≥ s.params.maxLimit then 0
  else s.params.maxLimit - l

/-- owner address of a registration (`Get*Owner`): empty address when unknown/undecodable -/
def ownerOf (s : RegState) (id : Nat) : Option Addr :=
  match AL.find? s.regs id with
  | some m => m.owner.decode
  | none => none

/-- heights/ids retained for registration `id`, ascending -/
def retained (s : RegState) (id : Nat) : List Nat :=
  isort ((s.recs.filter (fun e => e.1.1 = id)).map (fun e => e.1.2))

def minOr0 : List Nat → Nat
  | [] => 0
  | x :: xs => xs.foldl min x

/-- lowest retained key (`GetLastWrkChainHeightInState`: first element of the prefix scan) or 0 -/
def lowestRetained (s : RegState) (id : Nat) : Nat :=
  minOr0 ((s.recs.filter (fun e => e.1.1 = id)).map (fun e => e.1.2))

/-- `ValidateBasic` of the register message -/
def vbRegister (s : RegState) (moniker name genesis : String) (owner : AddrTok) : M Unit := do
  let _ ← owner.decodeM
  match s.kind with
  | .wrk => do
    require (moniker.utf8ByteSize ≠ 0) (s.mErr 2)
    require (name.utf8ByteSize ≤ maxNameLen) (s.mErr 3)
    require (moniker.utf8ByteSize ≤ maxMonikerLen) (s.mErr 3)
    require (genesis.utf8ByteSize ≤ maxHashLen) (s.mErr 3)
  | .bcn => do
    require (moniker.utf8ByteSize ≠ 0 && name.utf8ByteSize ≠ 0) (s.mErr 2)
    require (name.utf8ByteSize ≤ maxNameLen) (s.mErr 3)
    require (moniker.utf8ByteSize ≤ maxMonikerLen) (s.mErr 3)

/-- the state after a successful registration of `id` -/
def registered (s : RegState) (nowSec : Nat) (moniker name genesis type : String) (ownerAddr : Addr) : RegState :=
  let id := s.nextId
  let m : RegMeta := {
    id := id, owner := AddrTok.canon ownerAddr, moniker := moniker, name := name,
    genesis := (match s.kind with | .wrk => genesis | .bcn => ""),
    type := (match s.kind with | .wrk => type | .bcn => ""),
    regTime := nowSec, last := 0, num := 0, lowest := 0 }
  { s with
    regs := AL.insert s.regs id m
    limits := AL.insert s.limits id s.params.defLimit
    nextId := addU64 id 1 }

/-- message server `RegisterWrkChain` / `RegisterBeacon`; returns the assigned id -/
def register (s : RegState) (nowSec : Nat) (moniker name genesis type : String) (owner : AddrTok) :
    M (RegState × Nat) := do
  let ownerAddr ← owner.decodeM
  require (name.utf8ByteSize ≤ maxNameLen) (s.mErr 3)
  require (moniker.utf8ByteSize ≤ maxMonikerLen) (s.mErr 3)
  require (moniker.utf8ByteSize ≠ 0) (s.mErr 2)
  pure (s.registered nowSec moniker name genesis type ownerAddr, s.nextId)

/-- `ValidateBasic` of the record message (`subTime` only meaningful for bcn) -/
def vbRecord (s : RegState) (id key : Nat) (r : Rec) (owner : AddrTok) : M Unit := do
  let _ ← owner.decodeM
  match s.kind with
  | .wrk => do
    require (id ≠ 0) (s.mErr 5)
    require (r.h0.utf8ByteSize ≠ 0) (s.mErr 2)
    require (key ≠ 0) (s.mErr 2)
    require (r.h0.utf8ByteSize ≤ maxHashLen && r.h1.utf8ByteSize ≤ maxHashLen && r.h2.utf8ByteSize ≤ maxHashLen &&
             r.h3.utf8ByteSize ≤ maxHashLen && r.h4.utf8ByteSize ≤ maxHashLen) (s.mErr 3)
  | .bcn => do
    require (id ≠ 0) (s.mErr 2)
    require (r.h0.utf8ByteSize ≠ 0) (s.mErr 2)
    require (r.subTime ≠ 0) (s.mErr 2)
    require (r.h0.utf8ByteSize ≤ maxHashLen) (s.mErr 3)

/-- `RecordNewWrkchainHashes` (after the handler's checks) -/
def recordWrk (s : RegState) (nowSec : Nat) (m : RegMeta) (height : Nat) (r : Rec) : RegState :=
  let id := m.id
  let rec' : Rec := { r with key := height, subTime := nowSec }
  let s1 := { s with recs := insertRec s.recs (id, height) rec' }
  let num1 := addU64 m.num 1
  let deleteHeight := m.lowest
  let lowest1 := if m.lowest = 0 then height else m.lowest
  let limit := (s.limitOf id).1
  if num1 > limit ∧ deleteHeight > 0 then
    let s2 := { s1 with recs := AL.erase s1.recs (id, deleteHeight) }
    let m' := { m with last := height, num := subU64 num1 1, lowest := s2.lowestRetained id }
    { s2 with regs := AL.insert s2.regs id m' }
  else
    let m' := { m with last := height, num := num1, lowest := lowest1 }
    { s1 with regs := AL.insert s1.regs id m' }

/-- `RecordNewBeaconTimestamp`; returns the assigned timestamp id -/
def recordBcn (s : RegState) (m : RegMeta) (hash : String) (submitTime : Nat) : RegState × Nat :=
  let id := m.id
  let tsid := addU64 m.last 1
  let s1 := { s with recs := insertRec s.recs (id, tsid) { key := tsid, h0 := hash, subTime := submitTime } }
  let last1 := if tsid > m.last then tsid else m.last
  let first1 := if m.lowest = 0 then tsid else m.lowest
  let num1 := addU64 m.num 1
  let limit := (s.limitOf id).1
  if num1 > limit then
    let s2 := { s1 with recs := AL.erase s1.recs (id, first1) }
    let m' := { m with last := last1, lowest := addU64 first1 1, num := subU64 num1 1 }
    ({ s2 with regs := AL.insert s2.regs id m' }, tsid)
  else
    let m' := { m with last := last1, lowest := first1, num := num1 }
    ({ s1 with regs := AL.insert s1.regs id m' }, tsid)

/-- the registration `id` when it exists and `ownerAddr` is its owner (`IsAuthorisedToRecord`) -/
def ownedBy (s : RegState) (id : Nat) (ownerAddr : Addr) : M RegMeta :=
  match AL.find? s.regs id with
  | none => .error (s.mErr 4)
  | some m => if m.owner.decode = some ownerAddr then .ok m else .error (s.mErr 6)

/-- message server `RecordWrkChainBlock` / `RecordBeaconTimestamp`; `wall` is the wall-clock oracle
used only when the beacon submit time is zero (unreachable behind `ValidateBasic`). Returns the
record key. -/
def record (s : RegState) (nowSec : Nat) (wall : Nat) (id key : Nat) (r : Rec) (owner : AddrTok) :
    M (RegState × Nat) := do
  let ownerAddr ← owner.decodeM
  match s.kind with
  | .wrk => do
    require (key ≠ 0) (s.mErr 5)
    require (r.h0.utf8ByteSize ≤ maxHashLen && r.h1.utf8ByteSize ≤ maxHashLen && r.h2.utf8ByteSize ≤ maxHashLen &&
             r.h3.utf8ByteSize ≤ maxHashLen && r.h4.utf8ByteSize ≤ maxHashLen) (s.mErr 3)
    let m ← s.ownedBy id ownerAddr
    require (key > m.last) (s.mErr 7)
    pure (s.recordWrk nowSec m key r, key)
  | .bcn => do
    require (r.h0.utf8ByteSize ≤ maxHashLen) (s.mErr 3)
    let m ← s.ownedBy id ownerAddr
    pure (s.recordBcn m r.h0 (if r.subTime = 0 then wall else r.subTime))

def vbPurchase (s : RegState) (id number : Nat) (owner : AddrTok) : M Unit := do
  let _ ← owner.decodeM
  require (id ≠ 0) (s.mErr 2)
  require (number ≠ 0) (s.mErr 2)

/-- message server `Purchase*StateStorage`; returns remaining purchasable slots -/
def purchase (s : RegState) (id number : Nat) (owner : AddrTok) : M (RegState × Nat) := do
  let ownerAddr ← owner.decodeM
  require (number ≠ 0) (s.mErr 3)
  let _ ← s.ownedBy id ownerAddr
  let limit := (s.limitOf id).1
  let after := addU64 limit number          -- uint64 addition; a wrapped sum is rejected
  require (after ≤ s.params.maxLimit && limit ≤ after) (s.mErr 8)
  let s' := { s with limits := AL.insert s.limits id after }
  pure (s', s'.maxPurchasable id)

/-- `SetParams` -/
def setParams (s : RegState) (p : RegParams) : M RegState := do
  require p.validate (.err "undefined" 1)
  pure { s with params := p }

end RegState
end Mainchain
