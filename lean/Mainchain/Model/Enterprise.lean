import Mainchain.Model.Bank
/-
x/enterprise : purchase orders, decisions, whitelist, begin-block processing, locked/spent eFUND
books and the fee unlock.  Sources: keeper/{msg_server,purchase,blocker,locked,whitelist,params}.go,
types/{msgs,params}.go, ante/ante.go.
-/
namespace Mainchain

def stNil : Nat := 0
def stRaised : Nat := 1
def stAccepted : Nat := 2
def stRejected : Nat := 3
def stCompleted : Nat := 4
def wlAdd : Nat := 1
def wlRemove : Nat := 2

def validPoStatus (s : Nat) : Bool := s = stRaised || s = stAccepted || s = stRejected || s = stCompleted
def validAcceptReject (s : Nat) : Bool := s = stAccepted || s = stRejected
def validWlAction (a : Nat) : Bool := a = wlAdd || a = wlRemove

structure EntParams where
  denom : String
  minAccepts : Nat
  decisionLimit : Nat
  /-- the comma separated `EntSigners` string, split at commas (`[""]` ↦ `[.empty]`) -/
  signers : List AddrTok
  deriving DecidableEq, Repr, Inhabited

/-- `Params.Validate()` of x/enterprise (`uint64(len(entSigners)) < p.MinAccepts`) -/
def EntParams.validate (p : EntParams) : Bool :=
  !(isBlank p.denom) && validDenom p.denom &&
  decide (p.minAccepts ≠ 0) && decide (p.decisionLimit ≠ 0) &&
  decide (p.signers ≠ [AddrTok.empty]) &&                      -- len(v) == 0
  p.signers.all (fun t => t.decode.isSome) &&
  !(decide (p.signers.length < p.minAccepts))

/-- decodable signer addresses (`GetParamEntSignersAsAddressArray`) -/
def EntParams.signerAddrs (p : EntParams) : List Addr := p.signers.filterMap AddrTok.decode

structure Decision where
  signer : AddrTok
  decision : Nat
  time : Nat
  deriving DecidableEq, Repr, Inhabited

structure PO where
  id : Nat
  purchaser : AddrTok       -- stored exactly as written in the message
  denom : String
  amt : Int
  status : Nat
  raiseTime : Nat
  completionTime : Nat
  decisions : List Decision
  deriving DecidableEq, Repr, Inhabited

structure EntState where
  params : EntParams
  nextId : Nat
  orders : List (Nat × PO) := []
  raisedQ : List Nat := []
  acceptedQ : List Nat := []
  whitelist : List Addr := []
  locked : List (Addr × Coin) := []
  spent : List (Addr × Coin) := []
  totalLocked : Coin
  totalSpent : Coin
  deriving Repr, DecidableEq

def entErr (code : Nat) : Err := .err "enterprise" code

/-- `Coin.Add` : panics on different denominations -/
def coinAdd (a b : Coin) : M Coin := do
  require (a.denom = b.denom) (.panic s!"invalid coin denominations; {a.denom}, {b.denom}")
  require (fitsInt256 (a.amt + b.amt)) (.panic "Int overflow")
  pure { a with amt := a.amt + b.amt }

/-- `Coin.Sub` : panics on different denominations or a negative result -/
def coinSub (a b : Coin) : M Coin := do
  require (a.denom = b.denom) (.panic s!"invalid coin denominations; {a.denom}, {b.denom}")
  require (0 ≤ a.amt - b.amt) (.panic "negative coin amount")
  pure { a with amt := a.amt - b.amt }

namespace EntState

def insertSortedNat (x : Nat) : List Nat → List Nat
  | [] => [x]
  | y :: ys => if x < y then x :: y :: ys else if x = y then y :: ys else y :: insertSortedNat x ys

def lockedOf (e : EntState) (a : Addr) : Coin :=
  (AL.find? e.locked a).getD { denom := e.params.denom, amt := 0 }

def spentOf (e : EntState) (a : Addr) : Coin :=
  (AL.find? e.spent a).getD { denom := e.params.denom, amt := 0 }

def isLocked (e : EntState) (a : Addr) : Bool := decide (0 < (e.lockedOf a).amt)

def isAuthorised (e : EntState) (a : Addr) : Bool := e.params.signerAddrs.contains a

/-- message server `UndPurchaseOrder`; returns the new order id -/
def raise (e : EntState) (nowSec : Nat) (purchaser : AddrTok) (denom : String) (amt : Int) : M (EntState × Nat) := do
  let acc ← purchaser.decodeM
  require (denom = e.params.denom) (entErr 7)
  require (0 < amt) (entErr 1)
  require (e.whitelist.contains acc) (entErr 10)
  let id := e.nextId
  let po : PO := { id := id, purchaser := purchaser, denom := denom, amt := amt, status := stRaised,
                   raiseTime := nowSec, completionTime := 0, decisions := [] }
  pure ({ e with orders := AL.insert e.orders id po
                 raisedQ := insertSortedNat id e.raisedQ
                 nextId := addU64 id 1 }, id)

def findOrder (e : EntState) (id : Nat) : M PO :=
  match AL.find? e.orders id with
  | some po => .ok po
  | none => .error (entErr 2)

/-- has the address `signer` (spelled `signerT` in the message) already decided this order? -/
def alreadyDecided (po : PO) (signerT : AddrTok) (signer : Addr) : Bool :=
  po.decisions.any (fun d => signerT = d.signer || d.signer.decode = some signer)

/-- message server `ProcessUndPurchaseOrder` -/
def decide_ (e : EntState) (nowSec : Nat) (poId : Nat) (decision : Nat) (signerT : AddrTok) : M EntState := do
  let signer ← signerT.decodeM
  require (e.isAuthorised signer) eUnauthorized
  let po ← e.findOrder poId
  require (validAcceptReject decision) (entErr 5)
  require (po.status ≠ stNil) (entErr 4)
  require (po.status = stRaised) (entErr 3)
  require (!alreadyDecided po signerT signer) (entErr 9)
  let d : Decision := { signer := AddrTok.canon signer, decision := decision, time := nowSec }
  pure { e with orders := AL.insert e.orders poId { po with decisions := po.decisions ++ [d] } }

/-- message server `WhitelistAddress` -/
def whitelistMsg (e : EntState) (action : Nat) (addrT signerT : AddrTok) : M EntState := do
  let signer ← signerT.decodeM
  let addr ← addrT.decodeM
  require (e.isAuthorised signer) eUnauthorized
  require (validWlAction action) (entErr 5)
  if action = wlAdd then do
    require (!e.whitelist.contains addr) (entErr 11)
    pure { e with whitelist := insertSortedNat addr e.whitelist }
  else do
    require (e.whitelist.contains addr) (entErr 12)
    pure { e with whitelist := e.whitelist.filter (· ≠ addr) }

/-- `SetParams` -/
def setParams (e : EntState) (p : EntParams) : M EntState := do
  require p.validate (.err "undefined" 1)
  pure { e with params := p }

/-- the tally rule for one order: `none` = stays raised -/
def tallyDecision (p : EntParams) (nowSec : Nat) (po : PO) : Option Nat :=
  let numAccepts : Int := (po.decisions.filter (·.decision = stAccepted)).length
  let numRejects : Int := (po.decisions.filter (·.decision = stRejected)).length
  let minAcc : Int := intOfU64 p.minAccepts
  let rejectThreshold : Int := (p.signers.length : Int) - minAcc
  let timeDiff := subU64 nowSec po.raiseTime
  if timeDiff ≥ p.decisionLimit ∧ numAccepts < minAcc then some stRejected
  else if numRejects > rejectThreshold then some stRejected
  else if numAccepts ≥ minAcc then some stAccepted
  else none

/-- the tally applied to one queued order id -/
def tallyOne (e : EntState) (nowSec : Nat) (id : Nat) : M EntState :=
  match AL.find? e.orders id with
  | none => .error (.panic "purchase order not found!")
  | some po =>
    if po.status ≠ stRaised then .error (.panic "purchase order status is not raised!")
    else match tallyDecision e.params nowSec po with
      | none => .ok e
      | some st =>
        let e1 := { e with orders := AL.insert e.orders id { po with status := st, completionTime := nowSec }
                           raisedQ := e.raisedQ.filter (· ≠ id) }
        .ok (if st = stAccepted then { e1 with acceptedQ := insertSortedNat id e1.acceptedQ } else e1)

/-- `TallyPurchaseOrderDecisions` -/
def tally (e : EntState) (nowSec : Nat) : M EntState :=
  e.raisedQ.foldlM (fun (e : EntState) (id : Nat) => e.tallyOne nowSec id) e

end EntState

/-- enterprise state + bank threaded together -/
structure EB where
  ent : EntState
  bank : Bank

namespace EB

/-- `incrementLockedUnd` -/
def incrementLocked (x : EB) (a : Addr) (amount : Coin) : M EB := do
  let l ← coinAdd (x.ent.lockedOf a) amount
  let t ← coinAdd x.ent.totalLocked amount
  pure { x with ent := { x.ent with locked := AL.insert x.ent.locked a l, totalLocked := t } }

/-- `MintCoinsAndLock` -/
def mintAndLock (x : EB) (nowSec : Int) (blocked : Addr → Bool) (recipient : Addr) (amount : Coin) : M EB :=
  if amount.amt = 0 then .ok x else do
    -- sdk.NewCoins(amount) panics on an invalid coin
    require (0 ≤ amount.amt && validDenom amount.denom) (.panic "invalid coin")
    let bank ← x.bank.mint Ment [amount]
    require (!blocked recipient) eUnauthorized
    let bank ← bank.sendCoins nowSec Ment recipient [amount]
    let bank ← bank.delegate nowSec recipient Ment [amount]
    incrementLocked { x with bank := bank } recipient amount

/-- every error of the minting step is a panic of `BeginBlock` -/
def asPanic {α : Type} : M α → M α
  | .ok v => .ok v
  | .error (.panic w) => .error (.panic w)
  | .error (.err cs c) => .error (.panic s!"{cs}:{c}")

/-- completion of one accepted order -/
def completeOne (x : EB) (nowSec : Int) (blocked : Addr → Bool) (id : Nat) : M EB :=
  match AL.find? x.ent.orders id with
  | none => .error (.panic "purchase order not found!")
  | some po =>
    if po.status ≠ stAccepted then .error (.panic "purchase order status is not accepted!")
    else match po.purchaser.decode with
      | none => .error (.panic "decoding bech32 failed")
      | some purchaser => do
        let x1 : EB := { x with ent := { x.ent with orders := AL.insert x.ent.orders id { po with status := stCompleted } } }
        let x2 ← asPanic (mintAndLock x1 nowSec blocked purchaser { denom := po.denom, amt := po.amt })
        pure { x2 with ent := { x2.ent with acceptedQ := x2.ent.acceptedQ.filter (· ≠ id) } }

/-- `ProcessAcceptedPurchaseOrders` : every error is a panic of `BeginBlock` -/
def processAccepted (x : EB) (nowSec : Int) (blocked : Addr → Bool) : M EB :=
  x.ent.acceptedQ.foldlM (fun (x : EB) (id : Nat) => completeOne x nowSec blocked id) x

/-- `decrementLockedUnd` (with its saturating branches) -/
def decrementLocked (x : EB) (a : Addr) (amount : Coin) : M EB := do
  let l := x.ent.lockedOf a
  let zero : Coin := { denom := x.ent.params.denom, amt := 0 }
  let l' ← (if (Coins.safeSub (Coins.ofCoin l) (Coins.ofCoin amount)).2 then .ok zero else coinSub l amount)
  let t' ← (if (Coins.safeSub (Coins.ofCoin x.ent.totalLocked) (Coins.ofCoin amount)).2 then .ok zero
            else coinSub x.ent.totalLocked amount)
  pure { x with ent := { x.ent with locked := AL.insert x.ent.locked a l', totalLocked := t' } }

/-- `incrementSpentEFUND` -/
def incrementSpent (x : EB) (a : Addr) (amount : Coin) : M EB := do
  let s ← coinAdd (x.ent.spentOf a) amount
  let t ← coinAdd x.ent.totalSpent amount
  pure { x with ent := { x.ent with spent := AL.insert x.ent.spent a s, totalSpent := t } }

/-- `UnlockCoinsForFees(feePayer, feesToPay)` -/
def unlockForFees (x : EB) (nowSec : Int) (payer : Addr) (fees : Coins) : M EB := do
  let lockedUnd := x.ent.lockedOf payer
  let d := x.ent.params.denom
  let feeNund : Coin := { denom := d, amt := Coins.amountOf fees d }
  -- `_, feeToPay := feesToPay.Find(denom)` : the zero-value Coin (nil amount) when absent ⇒ nil dereference
  require (fees.any (·.denom = d)) (.panic "nil pointer dereference")
  if !(Coins.safeSub (Coins.ofCoin lockedUnd) [feeNund]).2 then do
    -- locked ≥ fee : undelegate the whole fee coin set
    let bank ← x.bank.undelegate nowSec Ment payer fees
    let x1 ← decrementLocked { x with bank := bank } payer feeNund
    incrementSpent x1 payer feeNund
  else if !(Coins.safeSub (Coins.add (x.bank.spendable nowSec payer) (Coins.ofCoin lockedUnd)) [feeNund]).2 then do
    -- spendable + locked ≥ fee : unlock everything that is locked
    let bank ← x.bank.undelegate nowSec Ment payer (Coins.ofCoin lockedUnd)
    let x1 ← decrementLocked { x with bank := bank } payer lockedUnd
    incrementSpent x1 payer lockedUnd
  else pure x

end EB
end Mainchain
