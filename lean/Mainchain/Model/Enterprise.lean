import Mainchain.Model.Bank
/-
x/enterprise : purchase orders, decisions, whitelist, begin-block processing, locked/spent eFUND
books and the fee unlock.  Sources: keeper/{msg_server,purchase,blocker,locked,whitelist,params}.go,
types/{msgs,params}.go, ante/ante.go.
-/
namespace Mainchain

def stNil : Nat := 0
def stRaised : Nat := 1
def stAccepted : Nat := 2
def stRejected : Nat := 3
def stCompleted : Nat := 4
def wlAdd : Nat := 1
def wlRemove : Nat := 2

def validPoStatus (s : Nat) : Bool := s = stRaised || s = stAccepted || s = stRejected || s = stCompleted
def validAcceptReject (s : Nat) : Bool := s = stAccepted || s = stRejected
def validWlAction (a : Nat) : Bool := a = wlAdd || a = wlRemove

structure EntParams where
  denom : String
  minAccepts : Nat
  decisionLimit : Nat
  /-- the comma separated `EntSigners` string, split at commas (`[""]` ↦ `[.empty]`) -/
  signers : List AddrTok
  deriving DecidableEq, Repr, Inhabited

/-- `Params.Validate()` of x/enterprise (`uint64(len(entSigners)) < p.MinAccepts`) -/
def EntParams.validate (p : EntParams) : Bool :=
  !(isBlank p.denom) && validDenom p.denom &&
  decide (p.minAccepts ≠ 0) && decide (p.decisionLimit ≠ 0) &&
  decide (p.signers ≠ [AddrTok.empty]) &&                      -- len(v) == 0
  p.signers.all (fun t => t.decode.isSome) &&
  !(decide (p.signers.length < p.minAccepts))

/-- decodable signer addresses (`GetParamEntSignersAsAddressArray`) -/
def EntParams.signerAddrs (p : EntParams) : List Addr := p.signers.filterMap AddrTok.decode

structure Decision where
  signer : AddrTok
  decision : Nat
  time : Nat
  deriving DecidableEq, Repr, Inhabited

structure PO where
  id : Nat
  purchaser : AddrTok       -- stored exactly as written in the message
  denom : String
  amt : Int
  status : Nat
  raiseTime : Nat
  completionTime : Nat
  decisions : List Decision
  deriving DecidableEq, Repr, Inhabited

structure EntState where
  params : EntParams
  nextId : Nat
  orders : List (Nat × PO) := []
  raisedQ : List Nat := []
  acceptedQ : List Nat := []
  whitelist : List Addr := []
  locked : List (Addr × Coin) := []
  spent : List (Addr × Coin) := []
  totalLocked : Coin
  totalSpent : Coin
  deriving Repr, DecidableEq

def entErr (code : Nat) : Err := .err "enterprise" code

/-- `Coin.Add` : panics on different denominations -/
def coinAdd (a b : Coin) : M Coin :=
  if a.denom ≠ b.denom then throw (.panic s!"invalid coin denominations; {a.denom}, {b.denom}")
  else if !fitsInt256 (a.amt + b.amt) then throw (.panic "Int overflow")
  else pure { a with amt := a.amt + b.amt }

/-- `Coin.Sub` : panics on different denominations or a negative result -/
def coinSub (a b : Coin) : M Coin :=
  if a.denom ≠ b.denom then throw (.panic s!"invalid coin denominations; {a.denom}, {b.denom}")
  else if a.amt - b.amt < 0 then throw (.panic "negative coin amount")
  else pure { a with amt := a.amt - b.amt }

namespace EntState

def insertSortedNat (x : Nat) : List Nat → List Nat
  | [] => [x]
  | y :: ys => if x < y then x :: y :: ys else if x = y then y :: ys else y :: insertSortedNat x ys

def lockedOf (e : EntState) (a : Addr) : Coin :=
  (AL.find? e.locked a).getD { denom := e.params.denom, amt := 0 }

def spentOf (e : EntState) (a : Addr) : Coin :=
  (AL.find? e.spent a).getD { denom := e.params.denom, amt := 0 }

def isLocked (e : EntState) (a : Addr) : Bool := decide (0 < (e.lockedOf a).amt)

def isAuthorised (e : EntState) (a : Addr) : Bool := e.params.signerAddrs.contains a

/-- message server `UndPurchaseOrder`; returns the new order id -/
def raise (e : EntState) (nowSec : Nat) (purchaser : AddrTok) (denom : String) (amt : Int) : M (EntState × Nat) := do
  let acc ← match purchaser.decode with | some a => pure a | none => throw eInvalidAddress
  if denom ≠ e.params.denom then throw (entErr 7)
  if !(0 < amt) then throw (entErr 1)
  if !e.whitelist.contains acc then throw (entErr 10)
  let id := e.nextId
  let po : PO := { id := id, purchaser := purchaser, denom := denom, amt := amt, status := stRaised,
                   raiseTime := nowSec, completionTime := 0, decisions := [] }
  pure ({ e with orders := AL.insert e.orders id po
                 raisedQ := insertSortedNat id e.raisedQ
                 nextId := addU64 id 1 }, id)

/-- message server `ProcessUndPurchaseOrder` -/
def decide_ (e : EntState) (nowSec : Nat) (poId : Nat) (decision : Nat) (signerT : AddrTok) : M EntState := do
  let signer ← match signerT.decode with | some a => pure a | none => throw eInvalidAddress
  if !e.isAuthorised signer then throw eUnauthorized
  match AL.find? e.orders poId with
  | none => throw (entErr 2)
  | some po =>
    if !validAcceptReject decision then throw (entErr 5)
    if po.status = stNil then throw (entErr 4)
    if po.status ≠ stRaised then throw (entErr 3)
    -- duplicate check: same string, or the stored signer decodes to the same address
    if po.decisions.any (fun d => signerT = d.signer ∨ d.signer.decode = some signer) then throw (entErr 9)
    let d : Decision := { signer := AddrTok.canon signer, decision := decision, time := nowSec }
    let po' := { po with decisions := po.decisions ++ [d] }
    pure { e with orders := AL.insert e.orders poId po' }

/-- message server `WhitelistAddress` -/
def whitelistMsg (e : EntState) (action : Nat) (addrT signerT : AddrTok) : M EntState := do
  let signer ← match signerT.decode with | some a => pure a | none => throw eInvalidAddress
  let addr ← match addrT.decode with | some a => pure a | none => throw eInvalidAddress
  if !e.isAuthorised signer then throw eUnauthorized
  if !validWlAction action then throw (entErr 5)
  if action = wlAdd then
    if e.whitelist.contains addr then throw (entErr 11)
    pure { e with whitelist := insertSortedNat addr e.whitelist }
  else
    if !e.whitelist.contains addr then throw (entErr 12)
    pure { e with whitelist := e.whitelist.filter (· ≠ addr) }

/-- `SetParams` -/
def setParams (e : EntState) (p : EntParams) : M EntState :=
  if p.validate then pure { e with params := p } else throw (.err "undefined" 1)

/-- the tally rule for one order: `none` = stays raised -/
def tallyDecision (p : EntParams) (nowSec : Nat) (po : PO) : Option Nat :=
  let numAccepts : Int := (po.decisions.filter (·.decision = stAccepted)).length
  let numRejects : Int := (po.decisions.filter (·.decision = stRejected)).length
  let minAcc : Int := intOfU64 p.minAccepts
  let rejectThreshold : Int := (p.signers.length : Int) - minAcc
  let timeDiff := subU64 nowSec po.raiseTime
  if timeDiff ≥ p.decisionLimit ∧ numAccepts < minAcc then some stRejected
  else if numRejects > rejectThreshold then some stRejected
  else if numAccepts ≥ minAcc then some stAccepted
  else none

/-- `TallyPurchaseOrderDecisions` -/
def tally (e : EntState) (nowSec : Nat) : M EntState :=
  e.raisedQ.foldlM (fun (e : EntState) (id : Nat) => do
    match AL.find? e.orders id with
    | none => throw (.panic "purchase order not found!")
    | some po =>
      if po.status ≠ stRaised then throw (.panic "purchase order status is not raised!")
      match tallyDecision e.params nowSec po with
      | none => pure e
      | some st =>
        let po' := { po with status := st, completionTime := nowSec }
        let e1 := { e with orders := AL.insert e.orders id po', raisedQ := e.raisedQ.filter (· ≠ id) }
        if st = stAccepted then pure { e1 with acceptedQ := insertSortedNat id e1.acceptedQ } else pure e1) e

end EntState

/-- enterprise state + bank threaded together -/
structure EB where
  ent : EntState
  bank : Bank

namespace EB

/-- `incrementLockedUnd` -/
def incrementLocked (x : EB) (a : Addr) (amount : Coin) : M EB := do
  let l ← coinAdd (x.ent.lockedOf a) amount
  let t ← coinAdd x.ent.totalLocked amount
  pure { x with ent := { x.ent with locked := AL.insert x.ent.locked a l, totalLocked := t } }

/-- `MintCoinsAndLock` -/
def mintAndLock (x : EB) (nowSec : Int) (blocked : Addr → Bool) (recipient : Addr) (amount : Coin) : M EB := do
  if amount.amt = 0 then return x
  -- sdk.NewCoins(amount) panics on an invalid coin
  if amount.amt < 0 || !validDenom amount.denom then throw (.panic "invalid coin")
  let coins : Coins := [amount]
  let bank ← x.bank.mint Ment coins
  if blocked recipient then throw eUnauthorized
  let bank ← bank.sendCoins nowSec Ment recipient coins
  let bank ← bank.delegate nowSec recipient Ment coins
  incrementLocked { x with bank := bank } recipient amount

/-- `ProcessAcceptedPurchaseOrders` : every error is a panic of `BeginBlock` -/
def processAccepted (x : EB) (nowSec : Int) (blocked : Addr → Bool) : M EB :=
  x.ent.acceptedQ.foldlM (fun (x : EB) (id : Nat) => do
    match AL.find? x.ent.orders id with
    | none => throw (.panic "purchase order not found!")
    | some po =>
      if po.status ≠ stAccepted then throw (.panic "purchase order status is not accepted!")
      let po' := { po with status := stCompleted }
      let x1 : EB := { x with ent := { x.ent with orders := AL.insert x.ent.orders id po' } }
      let purchaser ← match po.purchaser.decode with
        | some a => pure a
        | none => throw (.panic "decoding bech32 failed")
      let x2 ← match mintAndLock x1 nowSec blocked purchaser { denom := po.denom, amt := po.amt } with
        | .ok v => pure v
        | .error (.panic w) => throw (.panic w)
        | .error (.err cs c) => throw (.panic s!"{cs}:{c}")
      pure { x2 with ent := { x2.ent with acceptedQ := x2.ent.acceptedQ.filter (· ≠ id) } }) x

/-- `decrementLockedUnd` (with its saturating branches) -/
def decrementLocked (x : EB) (a : Addr) (amount : Coin) : M EB := do
  let l := x.ent.lockedOf a
  let zero : Coin := { denom := x.ent.params.denom, amt := 0 }
  let (_, neg) := Coins.safeSub (Coins.ofCoin l) (Coins.ofCoin amount)
  let l' ← if neg then pure zero else coinSub l amount
  let ent1 := { x.ent with locked := AL.insert x.ent.locked a l' }
  let (_, negT) := Coins.safeSub (Coins.ofCoin ent1.totalLocked) (Coins.ofCoin amount)
  let t' ← if negT then pure zero else coinSub ent1.totalLocked amount
  pure { x with ent := { ent1 with totalLocked := t' } }

/-- `incrementSpentEFUND` -/
def incrementSpent (x : EB) (a : Addr) (amount : Coin) : M EB := do
  let s ← coinAdd (x.ent.spentOf a) amount
  let t ← coinAdd x.ent.totalSpent amount
  pure { x with ent := { x.ent with spent := AL.insert x.ent.spent a s, totalSpent := t } }

/-- `UnlockCoinsForFees(feePayer, feesToPay)` -/
def unlockForFees (x : EB) (nowSec : Int) (payer : Addr) (fees : Coins) : M EB := do
  let lockedUnd := x.ent.lockedOf payer
  let lockedCoins := Coins.ofCoin lockedUnd
  let d := x.ent.params.denom
  let feeNund : Coin := { denom := d, amt := Coins.amountOf fees d }
  -- `_, feeToPay := feesToPay.Find(denom)` : the zero-value Coin (nil amount) when absent ⇒ nil dereference
  if !(fees.any (·.denom = d)) then throw (.panic "nil pointer dereference")
  let feeToPay : Coins := [feeNund]
  let (_, neg) := Coins.safeSub lockedCoins feeToPay
  if !neg then
    let bank ← x.bank.undelegate nowSec Ment payer fees
    let x1 ← decrementLocked { x with bank := bank } payer feeNund
    incrementSpent x1 payer feeNund
  else
    let potentially := Coins.add (x.bank.spendable nowSec payer) lockedCoins
    let (_, neg2) := Coins.safeSub potentially feeToPay
    if !neg2 then
      let bank ← x.bank.undelegate nowSec Ment payer lockedCoins
      let x1 ← decrementLocked { x with bank := bank } payer lockedUnd
      incrementSpent x1 payer lockedUnd
    else pure x

end EB
end Mainchain
