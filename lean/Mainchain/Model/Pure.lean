import Mainchain.Model.Keys
import Mainchain.Model.Convert
import Mainchain.Model.Script
/-
`mdriver pure` : answers the requests of PROTOCOL.md §5 from the model's definitions.
-/
namespace Mainchain
namespace Pure
open Keys

def hexDigit (n : Nat) : Char := if n < 10 then Char.ofNat (48 + n) else Char.ofNat (87 + n)
def toHex (bs : Bytes) : String :=
  if bs.isEmpty then "-" else String.ofList (bs.flatMap (fun b => [hexDigit (b / 16), hexDigit (b % 16)]))

def hexVal? (c : Char) : Option Nat :=
  if c.isDigit then some (c.toNat - 48)
  else if 'a' ≤ c ∧ c ≤ 'f' then some (c.toNat - 87)
  else none

def fromHexAux : List Char → Option Bytes
  | [] => some []
  | a :: b :: rest => do
    let x ← hexVal? a
    let y ← hexVal? b
    let r ← fromHexAux rest
    pure ((x * 16 + y) :: r)
  | _ => none

def fromHex? (s : String) : Option Bytes := if s = "-" then some [] else fromHexAux s.toList

def pfx (m v : String) : Option Nat := prefixOf m v

def showM {α : Type} (f : α → String) : M α → String
  | .ok a => f a
  | .error (.panic _) => "panic"
  | .error _ => "err"

def optHex : Option Bytes → String
  | some b => toHex b
  | none => "panic"

def signerTok? (t : String) : Option AddrTok := if t = "" then some .empty else Script.pAddrTok? t

/-- the stored-owner token of an `ownergate` request: `A<i>` canonical, `U<i>` upper case, `F<i>` foreign prefix / `T<i>`
wrong checksum / `J` arbitrary word (all three: a non-empty string that does not decode), `-` empty, `none` no registration -/
def gateOwner? (t : String) : Option (Option AddrTok) :=
  if t = "none" then some none
  else if t = "-" then some (some .empty)
  else if t = "J" then some (some .bad)
  else match t.toList with
    | 'A' :: ds => (String.ofList ds).toNat?.map (fun i => some (.ok i false))
    | 'U' :: ds => (String.ofList ds).toNat?.map (fun i => some (.ok i true))
    | 'F' :: ds => (String.ofList ds).toNat?.map (fun _ => some .bad)
    | 'T' :: ds => (String.ofList ds).toNat?.map (fun _ => some .bad)
    | _ => none

/-- `IsAuthorisedToRecord` on a registry holding (at most) registration 1 with the given stored owner -/
def ownerGate (k : RegKind) (own : Option AddrTok) (recorder : Addr) : Bool :=
  let p : RegParams := { denom := "nund", feeReg := 1, feeRec := 1, feeBuy := 1, defLimit := 1, maxLimit := 1 }
  let s0 : RegState := { kind := k, params := p, nextId := 2 }
  let s : RegState := match own with
    | none => s0
    | some o => { s0 with regs := [(1, RegMeta.mk 1 o "m" "n" "" "" 0 0 0 0)] }
  match s.ownedBy 1 recorder with
  | .ok _ => true
  | .error _ => false

/-- the message server's record (`buy = false`) or storage purchase (`buy = true`) handler for a message naming `recorder` as
owner, on a registry holding (at most) registration 1 (limit 3, default-like parameters) with the given stored owner:
did the message take effect? -/
def ownerMsg (k : RegKind) (buy : Bool) (own : Option AddrTok) (recorder : Addr) : Bool :=
  let p : RegParams := { denom := "nund", feeReg := 1, feeRec := 1, feeBuy := 1, defLimit := 3, maxLimit := 600000 }
  let s0 : RegState := { kind := k, params := p, nextId := 2 }
  let s : RegState := match own with
    | none => s0
    | some o => { s0 with regs := [(1, RegMeta.mk 1 o "m" "n" "" "" 0 0 0 0)], limits := [(1, 3)] }
  let who := AddrTok.canon recorder
  if buy then
    (match s.purchase 1 1 who with | .ok _ => true | .error _ => false)
  else
    (match s.record 1700000000 0 1 1 { key := 1, h0 := "a", subTime := 1700000000 } who with | .ok _ => true | .error _ => false)

def eval (toks : List String) : String :=
  match toks with
  | ["ownermsg", m, op, st, rc] =>
    match (if m = "wrk" then some RegKind.wrk else if m = "bcn" then some RegKind.bcn else none),
          (if op = "rec" then some false else if op = "buy" then some true else none), gateOwner? st,
          (match rc.toList with | 'A' :: ds => (String.ofList ds).toNat? | _ => none) with
    | some k, some b, some own, some j => if ownerMsg k b own j then "1" else "0"
    | _, _, _, _ => "bad-request"
  | ["ownergate", m, st, rc] =>
    match (if m = "wrk" then some RegKind.wrk else if m = "bcn" then some RegKind.bcn else none), gateOwner? st,
          (match rc.toList with | 'A' :: ds => (String.ofList ds).toNat? | _ => none) with
    | some k, some own, some j => if ownerGate k own j then "1" else "0"
    | _, _, _ => "bad-request"
  | ["key", "ent.po", n] => optHex (do pure (idKey (← pfx "enterprise" "PurchaseOrderIDKeyPrefix") (← n.toNat?)))
  | ["key", "ent.raised", n] => optHex (do pure (idKey (← pfx "enterprise" "RaisedPoPrefix") (← n.toNat?)))
  | ["key", "ent.accepted", n] => optHex (do pure (idKey (← pfx "enterprise" "AcceptedPoPrefix") (← n.toNat?)))
  | ["key", "ent.locked", a] => optHex (do pure (addrKey (← pfx "enterprise" "LockedUndAddressKeyPrefix") (← fromHex? a)))
  | ["key", "ent.spent", a] => optHex (do pure (addrKey (← pfx "enterprise" "SpentEFUNDAddressKeyPrefix") (← fromHex? a)))
  | ["key", "ent.wl", a] => optHex (do pure (addrKey (← pfx "enterprise" "WhitelistKeyPrefix") (← fromHex? a)))
  | ["key", "wrk.chain", n] => optHex (do pure (idKey (← pfx "wrkchain" "RegisteredWrkChainPrefix") (← n.toNat?)))
  | ["key", "wrk.limit", n] => optHex (do pure (idKey (← pfx "wrkchain" "WrkChainStorageLimitPrefix") (← n.toNat?)))
  | ["key", "wrk.blocks", n] => optHex (do pure (idKey (← pfx "wrkchain" "RecordedWrkChainBlockHashPrefix") (← n.toNat?)))
  | ["key", "wrk.block", n, h] => optHex (do pure (id2Key (← pfx "wrkchain" "RecordedWrkChainBlockHashPrefix") (← n.toNat?) (← h.toNat?)))
  | ["key", "bcn.beacon", n] => optHex (do pure (idKey (← pfx "beacon" "RegisteredBeaconPrefix") (← n.toNat?)))
  | ["key", "bcn.limit", n] => optHex (do pure (idKey (← pfx "beacon" "BeaconStorageLimitPrefix") (← n.toNat?)))
  | ["key", "bcn.tss", n] => optHex (do pure (idKey (← pfx "beacon" "RecordedBeaconTimestampPrefix") (← n.toNat?)))
  | ["key", "bcn.ts", n, h] => optHex (do pure (id2Key (← pfx "beacon" "RecordedBeaconTimestampPrefix") (← n.toNat?) (← h.toNat?)))
  | ["key", "str.stream", r, s] =>
    match pfx "stream" "StreamKeyPrefix", fromHex? r, fromHex? s with
    | some p, some r, some s => optHex (streamKey p r s)
    | _, _, _ => "bad-request"
  | ["key", "str.recv", r] =>
    match pfx "stream" "StreamKeyPrefix", fromHex? r with
    | some p, some r => optHex (recvKey p r)
    | _, _ => "bad-request"
  | ["parse", "str.stream", k] =>
    match fromHex? k with
    | some k => match parseStreamKey k with
      | some (r, s) => s!"{toHex r} {toHex s}"
      | none => "panic"
    | none => "bad-request"
  | ["parse", "u64", k] =>
    match (fromHex? k).bind u64beDecode with
    | some n => toString n
    | none => "panic"
  | ["dur", d, r] =>
    match d.toInt?, r.toInt? with
    | some d, some r => toString (calcDuration d r)
    | _, _ => "bad-request"
  | ["claim", now, zero, last, dep, rate] =>
    match now.toInt?, zero.toInt?, last.toInt?, dep.toInt?, rate.toInt? with
    | some n, some z, some l, some d, some r =>
      let (c, rem) := calcAmountToClaim n z l d r
      -- sdk.NewCoin panics when the claim amount does not fit 256 bits: impossible (≤ 2^64)
      s!"{c} {rem}"
    | _, _, _, _, _ => "bad-request"
  | ["valfee", f, a] =>
    match f.toInt?, a.toInt? with
    | some f, some a => showM (fun (x : Int × Int) => s!"{x.1} {x.2}") (calcValidatorFee f a)
    | _, _ => "bad-request"
  | ["addsec", t, d] =>
    match t.toInt?, d.toInt? with
    | some t, some d => toString (addSeconds t d)
    | _, _ => "bad-request"
  | ["conv", amt, src, dst] =>
    match Convert.convert (Script.undash amt) src dst with
    | some r => r
    | none => "skip"
  | ["entparams", denom, mn, lim, signers] =>
    match mn.toNat?, lim.toNat?, (if signers = "-" then some [AddrTok.empty] else (signers.splitOn ",").mapM signerTok?) with
    | some mn, some lim, some sg =>
      if ({ denom := Script.undash denom, minAccepts := mn, decisionLimit := lim, signers := sg } : EntParams).validate then "ok" else "err"
    | _, _, _ => "bad-request"
  | ["regparams", _, denom, a, b, c, d, e] =>
    match Script.pRegParamsToks? [Script.undash denom, a, b, c, d, e] with
    | some p => if p.validate then "ok" else "err"
    | none => "bad-request"
  | ["strparams", f] =>
    match f.toInt? with
    | some f => if streamParamsValid f then "ok" else "err"
    | none => "bad-request"
  | ["coins.lt", a, b] =>
    match Script.pCoins? a, Script.pCoins? b with
    | some a, some b => if Coins.isAllLT a b then "1" else "0"
    | _, _ => "bad-request"
  | ["coins.gt", a, b] =>
    match Script.pCoins? a, Script.pCoins? b with
    | some a, some b => if Coins.isAllGT a b then "1" else "0"
    | _, _ => "bad-request"
  | _ => "bad-request"

end Pure
end Mainchain
