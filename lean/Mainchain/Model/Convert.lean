/-
FUND ⇄ nund conversion (types/denom.go `ConvertUndDenomination`) as exact decimal-string arithmetic.
Digit functions are the model's own so that the round-trip can be proved.
-/
namespace Mainchain
namespace Convert

def digitChar (d : Nat) : Char := Char.ofNat (48 + d)

/-- decimal digits of `n`, most significant first (`0` ↦ `[0]`) -/
def digitsAux : Nat → Nat → List Nat → List Nat
  | 0, _, acc => acc
  | fuel + 1, n, acc => if n < 10 then n :: acc else digitsAux fuel (n / 10) (n % 10 :: acc)

def digits (n : Nat) : List Nat := digitsAux (n + 1) n []

def ofDigits (ds : List Nat) : Nat := ds.foldl (fun acc d => acc * 10 + d) 0

def charDigit? (c : Char) : Option Nat := if c.isDigit then some (c.toNat - 48) else none

def showNat (n : Nat) : String := String.ofList ((digits n).map digitChar)

/-- left-pad a digit list with zeros to length `w` -/
def padLeft (w : Nat) (ds : List Nat) : List Nat := List.replicate (w - ds.length) 0 ++ ds

/-- a plain decimal numeral `digits[.digits]` (at least one digit before the point; no sign, no
exponent).  Returns (all digits as one number, number of fractional digits). -/
def parseDecimal (s : String) : Option (Nat × Nat) :=
  let cs := s.toList
  let ip := cs.takeWhile Char.isDigit
  let rest := cs.dropWhile Char.isDigit
  if ip.isEmpty then none else
  match rest with
  | [] => (ip.mapM charDigit?).map (fun ds => (ofDigits ds, 0))
  | '.' :: fp =>
    if fp.isEmpty || !fp.all Char.isDigit then none
    else ((ip ++ fp).mapM charDigit?).map (fun ds => (ofDigits ds, fp.length))
  | _ => none

/-- FUND → nund : amount × 10^9, truncated toward zero beyond nine fractional digits -/
def fundToNundNat (m k : Nat) : Nat := if k ≤ 9 then m * 10 ^ (9 - k) else m / 10 ^ (k - 9)

/-- nund → FUND printed with exactly nine decimals (integer nund input) -/
def nundToFundStr (n : Nat) : String :=
  showNat (n / 1000000000) ++ "." ++ String.ofList ((padLeft 9 (digits (n % 1000000000))).map digitChar)

/-- `ConvertUndDenomination(amount, from, to)`; `none` = error / outside the modelled domain -/
def convert (amount src dst : String) : Option String :=
  if src = dst then some (amount ++ src)
  else if src = "fund" then
    (parseDecimal amount).map (fun (m, k) => showNat (fundToNundNat m k) ++ dst)
  else if src = "nund" then
    match parseDecimal amount with
    | some (m, 0) => some (nundToFundStr m ++ dst)
    | _ => none
  else some ""

end Convert
end Mainchain
