import Mainchain.Prim.Num
import Mainchain.Gen.Facts
/-
Store-key codecs of the four modules (x/*/types/keys.go).  Bytes are natural numbers < 256.
Section prefixes come from the regenerated `Facts.storePrefixes`.
-/
namespace Mainchain
namespace Keys

abbrev Bytes := List Nat

def prefixOf (module var : String) : Option Nat :=
  ((Facts.storePrefixes.find? (fun e => e.1 = module ∧ e.2.1 = var)).map (·.2.2))

/-- `binary.BigEndian.PutUint64` -/
def u64be (n : Nat) : Bytes :=
  [n / 72057594037927936 % 256, n / 281474976710656 % 256, n / 1099511627776 % 256, n / 4294967296 % 256,
   n / 16777216 % 256, n / 65536 % 256, n / 256 % 256, n % 256]

/-- `binary.BigEndian.Uint64` on an 8-byte slice -/
def u64beDecode : Bytes → Option Nat
  | [a, b, c, d, e, f, g, h] =>
    some (a * 72057594037927936 + b * 281474976710656 + c * 1099511627776 + d * 4294967296 +
          e * 16777216 + f * 65536 + g * 256 + h)
  | _ => none

/-- lexicographic order on byte strings (the iteration order of a KV store) -/
def lexLt : Bytes → Bytes → Bool
  | [], [] => false
  | [], _ :: _ => true
  | _ :: _, [] => false
  | a :: as, b :: bs => if a < b then true else if a = b then lexLt as bs else false

/-- one-byte section prefix followed by a big-endian id -/
def idKey (p : Nat) (id : Nat) : Bytes := p :: u64be id
/-- prefix ‖ id ‖ height -/
def id2Key (p : Nat) (id h : Nat) : Bytes := p :: (u64be id ++ u64be h)
/-- prefix ‖ raw address bytes -/
def addrKey (p : Nat) (addr : Bytes) : Bytes := p :: addr

/-- `address.MustLengthPrefix` : panics above 255 bytes; the empty address stays empty -/
def lengthPrefix (a : Bytes) : Option Bytes :=
  if a.length = 0 then some [] else if a.length > 255 then none else some (a.length :: a)

/-- `GetStreamsByReceiverKey` -/
def recvKey (p : Nat) (r : Bytes) : Option Bytes := (lengthPrefix r).map (fun x => p :: x)
/-- `GetStreamKey` -/
def streamKey (p : Nat) (r s : Bytes) : Option Bytes := do
  let a ← recvKey p r
  let b ← lengthPrefix s
  pure (a ++ b)

/-- `sdk.ParseLengthPrefixedBytes(key, start, len)` → (slice, end index) ; `none` = panic -/
def parseLP (key : Bytes) (start len : Nat) : Option (Bytes × Nat) :=
  -- neededLength := startIndex + sliceLength ; AssertKeyAtLeastLength ; endIndex := needed − 1
  let needed := start + len
  if key.length < needed then none
  else some ((key.drop start).take len, needed - 1)

/-- `AddressesFromStreamKey` -/
def parseStreamKey (key : Bytes) : Option (Bytes × Bytes) := do
  let (rl, rlEnd) ← parseLP key 1 1
  let rlen ← rl.head?
  let (r, rEnd) ← parseLP key (rlEnd + 1) rlen
  let (sl, slEnd) ← parseLP key (rEnd + 1) 1
  let slen ← sl.head?
  let (s, sEnd) ← parseLP key (slEnd + 1) slen
  if key.length < sEnd + 1 then none else pure (r, s)

def isPrefix (p k : Bytes) : Bool := decide (k.take p.length = p)

def wellFormed (bs : Bytes) : Prop := ∀ b ∈ bs, b < 256

end Keys
end Mainchain
