import Mainchain.Model.Chain
/-
Genesis export followed by `InitChain` on a fresh application (x/*/genesis.go, x/stream/keeper/genesis.go,
app/export.go, the module order of app/app.go and the crisis module's invariant assertion).
-/
namespace Mainchain
namespace Genesis
open AL

/-- `types.MaxBlockSubmissionsKeepInState` : the newest records exported per registration -/
def exportCap : Nat := 20000

def sortNat (xs : List Nat) : List Nat := isort xs

/-- the keys exported for registration `id`: the newest `exportCap` of the retained ones, ascending -/
def keptKeys (r : RegState) (id : Nat) : List Nat :=
  let ks := r.retained id                               -- ascending
  ks.drop (ks.length - exportCap)

/-- copy record `(id, k)` (if any) from `r` into `rs` -/
def collectRec (r : RegState) (id : Nat) (rs : List ((Nat × Nat) × Rec)) (k : Nat) : List ((Nat × Nat) × Rec) :=
  match find? r.recs (id, k) with
  | some rc => insertRec rs (id, k) rc
  | none => rs

/-- the counters `InitGenesis` recomputes from the exported records -/
def recount (r : RegState) (id : Nat) (m : RegMeta) : RegMeta :=
  { m with num := (keptKeys r id).length, lowest := (keptKeys r id).headD 0 }

def limitOr0 (r : RegState) (id : Nat) : Nat :=
  match find? r.limits id with | some l => l | none => 0

/-- export + import of registration `id` -/
def importRegStep (r : RegState) (acc : RegState) (id : Nat) : RegState :=
  match find? r.regs id with
  | none => acc
  | some m =>
    { acc with regs := insert acc.regs id (recount r id m), limits := insert acc.limits id (limitOr0 r id),
               recs := (keptKeys r id).foldl (collectRec r id) acc.recs }

/-- export + import of one registry module: registrations with counters recomputed from the exported
records, the limit as read from the limit store (0 when none), the newest `exportCap` records -/
def importReg (r : RegState) : RegState :=
  (sortNat (keys r.regs)).foldl (importRegStep r) { kind := r.kind, params := r.params, nextId := r.nextId }

/-- copy the entry of `id` (if any) from `m` into `acc` -/
def collectStep {ν : Type} (m : List (Nat × ν)) (acc : List (Nat × ν)) (id : Nat) : List (Nat × ν) :=
  match find? m id with
  | some v => insert acc id v
  | none => acc

def statusIs (e : EntState) (st : Nat) (id : Nat) : Bool :=
  match find? e.orders id with
  | some po => po.status = st
  | none => false

/-- export + import of x/enterprise: everything verbatim, both queues rebuilt from the order statuses -/
def importEnt (e : EntState) : EntState :=
  let ids := sortNat (keys e.orders)
  { params := e.params, nextId := e.nextId, orders := ids.foldl (collectStep e.orders) [],
    raisedQ := ids.filter (statusIs e stRaised),
    acceptedQ := ids.filter (statusIs e stAccepted),
    whitelist := e.whitelist.foldl (fun acc a => EntState.insertSortedNat a acc) [],
    locked := e.locked, spent := e.spent, totalLocked := e.totalLocked, totalSpent := e.totalSpent }

/-- denominations in which the bank holds an entry for account `a` -/
def bankDenoms (b : Bank) (a : Addr) : List String := (b.bal.filter (fun e => e.1.1 = a)).map (·.1.2)

/-- `GetAllBalances(a).IsEqual(sdk.NewCoins(c))` for `0 ≤ c.amt`, checked denomination by denomination -/
def balancesEqCoin (b : Bank) (a : Addr) (c : Coin) : Bool :=
  (bankDenoms b a ++ [c.denom]).all (fun d => decide ((b.balOf a d : Int) = (if d = c.denom then c.amt else 0)))

/-- Σ of the stream deposits in denomination `d` -/
def depositOf (st : StreamState) (d : String) : Int :=
  (st.streams.map (fun x => if x.2.denom = d then x.2.deposit else 0)).foldr (· + ·) 0

/-- the enterprise module-account invariant (`ModuleAccountInvariant`): escrow coins = NewCoins(total locked)
= NewCoins(Σ locked entries, summed in the parameter denomination — `Coin.Add` panics on any other) -/
def entInvariantOk (s : State) : Bool :=
  let sumLocked : Int := (s.ent.locked.map (fun x => x.2.amt)).foldr (· + ·) 0
  balancesEqCoin s.bank Ment s.ent.totalLocked &&
  s.ent.locked.all (fun x => x.2.denom = s.ent.params.denom) &&
  ((decide (s.ent.totalLocked.amt = 0) && decide (sumLocked = 0)) ||
   (decide (s.ent.totalLocked.denom = s.ent.params.denom) && decide (s.ent.totalLocked.amt = sumLocked)))

/-- the stream module-account invariant: escrow coins = Σ deposits, denomination by denomination -/
def strInvariantOk (s : State) : Bool :=
  (bankDenoms s.bank Mstr ++ s.str.streams.map (·.2.denom)).all
    (fun d => decide ((s.bank.balOf Mstr d : Int) = depositOf s.str d))

/-- the modules whose `InitGenesis` matters to the model -/
inductive GStep where
  | bank | gov | enterprise | stream | crisis | wrkchain | beacon | other
  deriving DecidableEq, Repr

def gstepOf (name : String) : GStep :=
  if name = "bank" then .bank else if name = "gov" then .gov else if name = "enterprise" then .enterprise
  else if name = "stream" then .stream else if name = "crisis" then .crisis else if name = "wrkchain" then .wrkchain
  else if name = "beacon" then .beacon else .other

/-- one `InitGenesis` step of the module manager; `done` lists the modules already initialised -/
def importStep (exp : State) (acc : State × List GStep) (k : GStep) : M (State × List GStep) :=
  match k with
  | .bank => .ok ({ acc.1 with bank := exp.bank }, acc.2 ++ [k])
  | .gov => do
    -- x/gov refuses a genesis whose module-account balance differs from the sum of the deposits (the scenario's
    -- own coins sent to the gov account are no deposits)
    require ((acc.1.bank.allBalances Mgov).isEmpty) (.panic "expected module account was … but we got …")
    pure (acc.1, acc.2 ++ [k])
  | .enterprise => do
    require (balancesEqCoin acc.1.bank Ment (importEnt exp.ent).totalLocked)
      (.panic "enterprise module balance does not match the module holdings")
    pure ({ acc.1 with ent := importEnt exp.ent }, acc.2 ++ [k])
  | .stream => do
    require (strInvariantOk { acc.1 with str := exp.str }) (.panic "stream module acc balance does not match the module holdings")
    pure ({ acc.1 with str := exp.str }, acc.2 ++ [k])
  | .crisis => do
    -- `crisis.InitGenesis` asserts every registered invariant on what has been imported so far
    require (acc.2.contains .enterprise) (.panic "invariant: enterprise not initialised")
    require (entInvariantOk acc.1) (.panic "invariant broken: enterprise: locked")
    require (strInvariantOk acc.1) (.panic "invariant broken: stream: deposits invariant")
    pure (acc.1, acc.2 ++ [k])
  | .wrkchain => .ok ({ acc.1 with wrk := importReg exp.wrk }, acc.2 ++ [k])
  | .beacon => .ok ({ acc.1 with bcn := importReg exp.bcn }, acc.2 ++ [k])
  | .other => .ok (acc.1, acc.2 ++ [k])

/-- the state of a fresh application before any module has been initialised -/
def blank (exp : State) : State :=
  { bank := {},
    ent := { params := { denom := "", minAccepts := 0, decisionLimit := 0, signers := [] }, nextId := 0,
             totalLocked := { denom := "", amt := 0 }, totalSpent := { denom := "", amt := 0 } },
    wrk := { kind := .wrk, params := { denom := "", feeReg := 0, feeRec := 0, feeBuy := 0, defLimit := 0, maxLimit := 0 }, nextId := 0 },
    bcn := { kind := .bcn, params := { denom := "", feeReg := 0, feeRec := 0, feeBuy := 0, defLimit := 0, maxLimit := 0 }, nextId := 0 },
    str := { fee := 0 },
    grants := exp.grants, allowances := exp.allowances, time := exp.time }

/-- `ExportAppStateAndValidators` → fresh app → `InitChain` : the module manager runs `InitGenesis` in the
order of `order` (regenerated from app.go) -/
def exportImport (order : List String) (s : State) : M State := do
  -- modules outside the model have no effect on it: only the relevant steps are folded
  let r ← ((order.map gstepOf).filter (· ≠ .other)).foldlM (importStep s) (blank s, [])
  pure r.1

end Genesis
end Mainchain
