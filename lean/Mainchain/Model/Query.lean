import Mainchain.Model.Paginate
import Mainchain.Model.Chain
/-
The gRPC query servers of the four modules (x/*/keeper/grpc_query.go, x/stream/keeper/query_streams.go)
and the enterprise supply queries (x/enterprise/keeper/locked.go) as pure functions of the state.
`none` = the query answers with an error (or panics, which BaseApp turns into an error).
-/
namespace Mainchain
namespace Query
open Keys Paginate

def u32be (n : Nat) : Bytes := [n / 16777216 % 256, n / 65536 % 256, n / 256 % 256, n % 256]

/-- raw bytes of an address: from the scenario's `G addr` table, else synthetic (20 bytes) -/
def addrBytes (tbl : List (Addr × Bytes)) (a : Addr) : Bytes :=
  (AL.find? tbl a).getD (List.replicate 16 0 ++ u32be a)

/-- length-prefixed address bytes (`address.MustLengthPrefix`, addresses are 1..255 bytes here) -/
def lp (b : Bytes) : Bytes := b.length :: b

/-- `strings.EqualFold` on two address strings as spelled -/
def eqFold : AddrTok → AddrTok → Bool
  | .ok a _, .ok b _ => a = b
  | .bad, .bad => true
  | .empty, .empty => true
  | _, _ => false

/-! ### enterprise -/

def poStore (e : EntState) : List (Bytes × PO) := sortKV (e.orders.map (fun x => (u64be x.1, x.2)))

/-- `EnterpriseUndPurchaseOrder` -/
def entPo (e : EntState) (id : Nat) : Option PO := if id = 0 then none else AL.find? e.orders id

/-- `EnterpriseUndPurchaseOrders` (status 0 = STATUS_NIL = no filter; empty purchaser = no filter) -/
def entPos (e : EntState) (status : Int) (purchaser : AddrTok) (req : Req) : Option (Res PO) :=
  filtered (poStore e) req (fun _ po =>
    some ((status = 0 || decide ((po.status : Int) = status)) && (decide (purchaser = .empty) || eqFold po.purchaser purchaser)))

/-- `Whitelist` : store order = ascending address bytes -/
def entWl (tbl : List (Addr × Bytes)) (e : EntState) : List Addr :=
  (sortKV (e.whitelist.map (fun a => (addrBytes tbl a, a)))).map (·.2)

def entWled (e : EntState) (t : AddrTok) : Option Bool := t.decode.map (fun a => e.whitelist.contains a)

/-- `LockedUndByAddress` / `SpentEFUNDByAddress` -/
def entLocked (e : EntState) (t : AddrTok) : Option Coin := t.decode.map e.lockedOf
def entSpent (e : EntState) (t : AddrTok) : Option Coin := t.decode.map e.spentOf

/-- `Coin.Sub` : `none` = panic (different denominations or a negative result) -/
def coinSub? (a b : Coin) : Option Coin :=
  if a.denom ≠ b.denom then none else if a.amt - b.amt < 0 then none else some { a with amt := a.amt - b.amt }

def supplyCoin (b : Bank) (d : String) : Coin := { denom := d, amt := b.supplyOf d }

/-- `GetSupplyOfWithLockedNundRemoved` behind `SupplyOf` (empty denom is rejected) -/
def supplyOf (s : State) (d : String) : Option Coin :=
  if d = "" then none
  else if d = s.ent.params.denom then coinSub? (supplyCoin s.bank d) s.ent.totalLocked
  else some (supplyCoin s.bank d)

/-- `TotalUnlocked` -/
def totalUnlocked (s : State) : Option Coin := coinSub? (supplyCoin s.bank s.ent.params.denom) s.ent.totalLocked

/-- what the validator environment holds of a denomination outside the model (constant: V's genesis
coins; deposits and bonding only move them between environment accounts) -/
def envHolding (d : String) : Nat := if d = "nund" then 1000000000000 else 0

/-- `EnterpriseSupply` : (denom, locked, unlocked, total) with the `Uint64()` conversions (panic ≥ 2^64) -/
def entSupply (s : State) : Option (String × Nat × Int × Int) :=
  let d := s.ent.params.denom
  let total : Int := (s.bank.supplyOf d : Int)
  match coinSub? { denom := d, amt := total } s.ent.totalLocked with
  | none => none
  | some unlocked =>
    if s.ent.totalLocked.amt < 0 ∨ s.ent.totalLocked.amt ≥ (two64 : Int) ∨ total + envHolding d ≥ (two64 : Int) then none
    else some (d, s.ent.totalLocked.amt.toNat, unlocked.amt, total)

def denomBytes (d : String) : Bytes := d.toUTF8.toList.map (·.toNat)

def supplyStore (b : Bank) : List (Bytes × Coin) :=
  sortKV ((b.supply.filter (fun e => e.2 ≠ 0)).map (fun e => (denomBytes e.1, { denom := e.1, amt := (e.2 : Int) })))

/-- `TotalSupply` = bank `GetPaginatedTotalSupply` (plain pagination over the supply store) with the
locked eFUND removed from the enterprise denomination -/
def totalSupply (s : State) (req : Req) : Option (Res Coin) :=
  match plain (supplyStore s.bank) req with
  | none => none
  | some r =>
    match r.items.mapM (fun c => if c.denom = s.ent.params.denom then coinSub? c s.ent.totalLocked else some c) with
    | none => none
    -- the bank keeper accumulates the page with `Coins.Add`, so the result is sorted by denomination
    -- whatever the iteration direction was
    | some items => some { r with items := Bank.sortCoins items }

/-! ### wrkchain / beacon -/

def regStore (r : RegState) : List (Bytes × RegMeta) := sortKV (r.regs.map (fun x => (u64be x.1, x.2)))

def regGet (r : RegState) (id : Nat) : Option RegMeta := if id = 0 then none else AL.find? r.regs id

/-- `WrkChainsFiltered` / `BeaconsFiltered` : an undecodable owner filter is an error as soon as one
entry is visited -/
def regList (r : RegState) (moniker : String) (owner : AddrTok) (req : Req) : Option (Res RegMeta) :=
  filtered (regStore r) req (fun _ m =>
    if owner ≠ .empty ∧ owner.decode.isNone then none
    else some ((decide (owner = .empty) || decide (m.owner = owner)) && (moniker.isEmpty || decide (m.moniker = moniker))))

/-- `WrkChainBlock` / `BeaconTimestamp` -/
def regRecord (r : RegState) (id key : Nat) : Option (RegMeta × Rec) :=
  if id = 0 ∨ key = 0 then none else
  match AL.find? r.regs id, AL.find? r.recs (id, key) with
  | some m, some rc => some (m, rc)
  | _, _ => none

/-- `*Storage` : (owner, current limit, used, max, max purchasable) -/
def regStorage (r : RegState) (id : Nat) : Option (AddrTok × Nat × Nat × Nat × Nat) :=
  match regGet r id with
  | none => none
  | some m => some (m.owner, (match AL.find? r.limits id with | some l => l | none => 0), m.num, r.params.maxLimit, r.maxPurchasable id)

/-! ### stream -/

abbrev StreamItem := (Addr × Addr) × Stream

def streamStore (tbl : List (Addr × Bytes)) (st : StreamState) : List (Bytes × StreamItem) :=
  sortKV (st.streams.map (fun x => (lp (addrBytes tbl x.1.1) ++ lp (addrBytes tbl x.1.2), x)))

def strGet (st : StreamState) (r s : AddrTok) : Option StreamItem := do
  let ra ← r.decode
  let sa ← s.decode
  let x ← AL.find? st.streams (ra, sa)
  pure ((ra, sa), x)

def strStreams (tbl : List (Addr × Bytes)) (st : StreamState) (req : Req) : Option (Res StreamItem) :=
  filtered (streamStore tbl st) req (fun _ _ => some true)

def strBySender (tbl : List (Addr × Bytes)) (st : StreamState) (s : AddrTok) (req : Req) : Option (Res StreamItem) := do
  let sa ← s.decode
  filtered (streamStore tbl st) req (fun _ x => some (decide (x.1.2 = sa)))

def strByReceiver (tbl : List (Addr × Bytes)) (st : StreamState) (r : AddrTok) (req : Req) : Option (Res StreamItem) := do
  let ra ← r.decode
  let sect := sortKV ((st.streams.filter (fun x => x.1.1 = ra)).map (fun x => (lp (addrBytes tbl x.1.2), x)))
  filtered sect req (fun _ _ => some true)

end Query
end Mainchain
