import Mainchain.Prim.AList
import Mainchain.Prim.Num
/-
Basic vocabulary of the model: addresses and their *spellings*, coins with the SDK's comparison
semantics, outcomes.
-/
namespace Mainchain

/-- Account addresses are abstract identities.  `0 …` scenario accounts, `1000 …` module accounts. -/
abbrev Addr := Nat

def Mbond : Addr := 1000
def Mdist : Addr := 1001
def Ment : Addr := 1002
def Mfee : Addr := 1003
def Mgov : Addr := 1004
def Mnbond : Addr := 1005
def Mstr : Addr := 1006
def Mxfer : Addr := 1007

/-- An address *as written in a message or stored as a string*.  Bech32 decoding accepts the
all-lower-case and the all-upper-case spelling of the same address; the code base compares such
strings with `==` in several places, so the spelling is part of the model. -/
inductive AddrTok where
  | ok (a : Addr) (upper : Bool)
  | bad            -- a non-empty string that does not decode
  | empty          -- the empty string
  deriving DecidableEq, Repr, Inhabited

namespace AddrTok
/-- `sdk.AccAddressFromBech32` -/
def decode : AddrTok → Option Addr
  | ok a _ => some a
  | _ => none
/-- `addr.String()` : canonical lower-case spelling -/
def canon (a : Addr) : AddrTok := .ok a false
end AddrTok

inductive Err where
  | err (codespace : String) (code : Nat)
  | panic (why : String)
  deriving Repr, DecidableEq, Inhabited

abbrev M := Except Err

/-- `require c e` : continue when `c` holds, else fail with `e`.  Every guard of the model is written
with this combinator so that handlers are linear chains of binds (proof-friendly). -/
def require (c : Bool) (e : Err) : M Unit := if c then .ok () else .error e

/-- `sdk.AccAddressFromBech32` as a monadic step -/
def AddrTok.decodeM (t : AddrTok) : M Addr :=
  match t.decode with
  | some a => .ok a
  | none => .error (.err "sdk" 7)

def sdkErr (code : Nat) : Err := .err "sdk" code
-- sdk error codes used
def eUnauthorized := sdkErr 4
def eInsufficientFunds := sdkErr 5
def eUnknownRequest := sdkErr 6
def eInvalidAddress := sdkErr 7
def eInvalidCoins := sdkErr 10
def eInsufficientFee := sdkErr 13
def eUnknownAddress := sdkErr 9
def eInvalidRequest := sdkErr 18
def eWrongSequence := sdkErr 32
def eInvalidType := sdkErr 29

structure Coin where
  denom : String
  amt : Int
  deriving DecidableEq, Repr, Inhabited

/-- `sdk.Coins`: sorted by denom, strictly, every amount positive (when valid). -/
abbrev Coins := List Coin

namespace Coins

def amountOf (cs : Coins) (d : String) : Int :=
  match cs.find? (·.denom = d) with
  | some c => c.amt
  | none => 0

def denoms (cs : Coins) : List String := cs.map (·.denom)

/-- strictly ascending denoms and positive amounts -/
def isValid : Coins → Bool
  | [] => true
  | [c] => decide (0 < c.amt) && !c.denom.isEmpty
  | c :: d :: rest => decide (0 < c.amt) && !c.denom.isEmpty && decide (c.denom < d.denom) && isValid (d :: rest)

def insertSorted (c : Coin) : Coins → Coins
  | [] => [c]
  | d :: rest =>
    if c.denom < d.denom then c :: d :: rest
    else if c.denom = d.denom then { d with amt := d.amt + c.amt } :: rest
    else d :: insertSorted c rest

/-- pointwise sum, zero entries dropped (`Coins.Add` for valid operands, `safeAdd` + `removeZeroCoins`) -/
def add (a b : Coins) : Coins := (b.foldl (fun acc c => insertSorted c acc) a).filter (·.amt ≠ 0)

def neg (a : Coins) : Coins := a.map (fun c => { c with amt := -c.amt })

/-- `Coins.SafeSub` : pointwise difference and whether any entry went negative -/
def safeSub (a b : Coins) : Coins × Bool :=
  let d := add a (neg b)
  (d, d.any (·.amt < 0))

def isZero (a : Coins) : Bool := a.all (·.amt = 0)

def denomsSubsetOf (a b : Coins) : Bool :=
  decide (a.length ≤ b.length) && a.all (fun c => b.any (·.denom = c.denom))

/-- `coins.IsAllGT(coinsB)` -/
def isAllGT (a b : Coins) : Bool :=
  if a.length = 0 then false
  else if b.length = 0 then true
  else if !denomsSubsetOf b a then false
  else b.all (fun cb => decide (cb.amt < amountOf a cb.denom))

/-- `coins.IsAllLT(coinsB)` -/
def isAllLT (a b : Coins) : Bool := isAllGT b a

/-- `coins.IsEqual(coinsB)` on valid sets -/
def isEqual (a b : Coins) : Bool := decide (a = b)

/-- `sdk.NewCoins(c)` for one coin: zero removed -/
def ofCoin (c : Coin) : Coins := if c.amt = 0 then [] else [c]

end Coins

/-- `sdk.ValidateDenom`: `[a-zA-Z][a-zA-Z0-9/:._-]{2,127}` -/
def validDenom (d : String) : Bool :=
  let cs := d.toList
  match cs with
  | [] => false
  | c :: rest =>
    c.isAlpha && decide (2 ≤ rest.length) && decide (rest.length ≤ 127) &&
      rest.all (fun x => x.isAlphanum || x = '/' || x = ':' || x = '.' || x = '_' || x = '-')

/-- `strings.TrimSpace(v) == ""` -/
def isBlank (s : String) : Bool := s.toList.all Char.isWhitespace

def two256 : Nat := 2 ^ 256

/-- `sdk.Int` holds at most 256 bits (excluding sign); exceeding it panics. -/
def fitsInt256 (x : Int) : Bool := decide (x.natAbs < two256)

end Mainchain
