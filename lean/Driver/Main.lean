import Mainchain.Model.Script
import Mainchain.Model.Pure
open Mainchain Mainchain.Script

def chomp (line : String) : String :=
  String.ofList (line.toList.reverse.dropWhile (fun c => c = '\n' || c = '\r')).reverse

partial def loop (h : IO.FS.Stream) (out : IO.FS.Stream) (wall : Nat) (it : Interp) : IO Unit := do
  let line ← h.getLine
  if line.isEmpty then return ()
  let (it', outs) := step wall it (chomp line)
  for o in outs do out.putStrLn o
  loop h out wall it'

partial def pureLoop (h : IO.FS.Stream) (out : IO.FS.Stream) : IO Unit := do
  let line ← h.getLine
  if line.isEmpty then return ()
  let l := chomp line
  if l.isEmpty then out.putStrLn "" else out.putStrLn (Pure.eval ((l.splitOn " ").filter (· ≠ "")))
  pureLoop h out

/-- `mdriver [wall]` : script on stdin, trace on stdout ; `mdriver pure` : pure requests -/
def main (args : List String) : IO Unit := do
  match args with
  | ["pure"] => pureLoop (← IO.getStdin) (← IO.getStdout)
  | _ =>
    let wall := (args.head?.bind String.toNat?).getD 0
    loop (← IO.getStdin) (← IO.getStdout) wall {}
