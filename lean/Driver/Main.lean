import Mainchain.Model.Script
open Mainchain Mainchain.Script

partial def loop (h : IO.FS.Stream) (out : IO.FS.Stream) (wall : Nat) (it : Interp) : IO Unit := do
  let line ← h.getLine
  if line.isEmpty then return ()
  let l := (line.dropRightWhile (fun c => c = '\n' || c = '\r'))
  let (it', outs) := step wall it l
  for o in outs do out.putStrLn o
  loop h out wall it'

/-- `mdriver [wall]` : script on stdin, trace on stdout -/
def main (args : List String) : IO Unit := do
  let wall := (args.head?.bind String.toNat?).getD 0
  loop (← IO.getStdin) (← IO.getStdout) wall {}
